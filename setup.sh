#!/bin/sh
# Build the verification machinery from files on disk only (offline).
set -e
cd "$(dirname "$0")"
export CARGO_NET_OFFLINE=true
mkdir -p .build evidence replays
cp /repo/Cargo.lock harness/Cargo.lock
cargo build --offline --manifest-path harness/Cargo.toml --target-dir .build/harness
cargo build --offline --manifest-path /repo/Cargo.toml --workspace --bins \
    --features erbium-core/verif-hooks --target-dir .build/repo
echo "setup ok"
