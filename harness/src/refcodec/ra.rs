//! Router Advertisement decoder written from RFC 4861 (message, SLLA, MTU, prefix information),
//! RFC 8106 (RDNSS, DNSSL), RFC 8781 (PREF64) and RFC 8910 (captive portal).

use std::net::Ipv6Addr;

#[derive(Clone, Debug, PartialEq, Eq)]
pub struct PrefixInfo {
    pub prefix: Ipv6Addr,
    pub len: u8,
    pub on_link: bool,
    pub autonomous: bool,
    pub valid: u32,
    pub preferred: u32,
}

#[derive(Clone, Debug, PartialEq, Eq, Default)]
pub struct Ra {
    pub hop_limit: u8,
    pub managed: bool,
    pub other: bool,
    pub router_lifetime: u16,
    pub reachable_ms: u32,
    pub retrans_ms: u32,
    pub source_ll: Option<Vec<u8>>,
    pub mtu: Option<u32>,
    pub prefixes: Vec<PrefixInfo>,
    /// (lifetime, addresses) per RDNSS option
    pub rdnss: Vec<(u32, Vec<Ipv6Addr>)>,
    /// (lifetime, domains as dotted strings) per DNSSL option
    pub dnssl: Vec<(u32, Vec<String>)>,
    /// (lifetime seconds, prefix length, prefix)
    pub pref64: Vec<(u32, u8, Ipv6Addr)>,
    pub captive_portal: Vec<Vec<u8>>,
    pub unknown_options: Vec<u8>,
}

/// Returns the decoded RA and a list of structural rule violations (the message is still
/// decoded as far as possible).
pub fn decode(b: &[u8]) -> Result<(Ra, Vec<String>), String> {
    let mut bad = Vec::new();
    if b.len() < 16 {
        return Err(format!("RA of {} octets is shorter than the fixed part", b.len()));
    }
    if b[0] != 134 || b[1] != 0 {
        return Err(format!("type/code {}/{} is not a router advertisement", b[0], b[1]));
    }
    if b.len() % 8 != 0 {
        bad.push(format!("message length {} is not a multiple of 8", b.len()));
    }
    let mut ra = Ra {
        hop_limit: b[4],
        managed: b[5] & 0x80 != 0,
        other: b[5] & 0x40 != 0,
        router_lifetime: u16::from_be_bytes([b[6], b[7]]),
        reachable_ms: u32::from_be_bytes([b[8], b[9], b[10], b[11]]),
        retrans_ms: u32::from_be_bytes([b[12], b[13], b[14], b[15]]),
        ..Default::default()
    };
    if b[5] & 0x03 != 0 {
        // bits 6,7 are reserved in every RFC updating the flags field so far
        bad.push(format!("reserved flag bits set: {:#04x}", b[5]));
    }
    let mut o = 16;
    while o < b.len() {
        if o + 2 > b.len() {
            bad.push("option header truncated".into());
            break;
        }
        let ty = b[o];
        let l = b[o + 1] as usize * 8;
        if l == 0 {
            bad.push(format!("option {} has length 0", ty));
            break;
        }
        if o + l > b.len() {
            bad.push(format!("option {} of {} octets runs past the end", ty, l));
            break;
        }
        let v = &b[o + 2..o + l];
        match ty {
            1 => {
                ra.source_ll = Some(v.to_vec());
            }
            5 => {
                if l != 8 {
                    bad.push(format!("MTU option length {} != 8", l));
                } else {
                    if v[0] != 0 || v[1] != 0 {
                        bad.push("MTU option reserved field not zero".into());
                    }
                    ra.mtu = Some(u32::from_be_bytes([v[2], v[3], v[4], v[5]]));
                }
            }
            3 => {
                if l != 32 {
                    bad.push(format!("prefix information length {} != 32", l));
                } else {
                    let len = v[0];
                    if v[1] & 0x3f != 0 {
                        // R bit (RFC 6275) is 0x20; erbium has no mobile-IP support: any of the
                        // low six bits set is a reserved bit set
                        bad.push(format!("prefix information reserved1 bits set: {:#04x}", v[1]));
                    }
                    if v[10..14] != [0, 0, 0, 0] {
                        bad.push("prefix information reserved2 not zero".into());
                    }
                    let mut p = [0u8; 16];
                    p.copy_from_slice(&v[14..30]);
                    let pv = u128::from_be_bytes(p);
                    if len > 128 {
                        bad.push(format!("prefix length {} > 128", len));
                    } else {
                        let mask = if len == 0 { 0 } else { u128::MAX << (128 - len as u32) };
                        if pv & !mask != 0 {
                            bad.push(format!("prefix {} has bits set beyond its length {}", Ipv6Addr::from(pv), len));
                        }
                    }
                    ra.prefixes.push(PrefixInfo {
                        prefix: Ipv6Addr::from(pv),
                        len,
                        on_link: v[1] & 0x80 != 0,
                        autonomous: v[1] & 0x40 != 0,
                        valid: u32::from_be_bytes([v[2], v[3], v[4], v[5]]),
                        preferred: u32::from_be_bytes([v[6], v[7], v[8], v[9]]),
                    });
                }
            }
            25 => {
                if l < 24 {
                    bad.push(format!("RDNSS option of {} octets carries no address (minimum length is 3 units)", l));
                }
                if (l - 8) % 16 != 0 {
                    bad.push(format!("RDNSS option length {} is not 8 + 16n", l));
                }
                if v[0] != 0 || v[1] != 0 {
                    bad.push("RDNSS reserved field not zero".into());
                }
                let lifetime = u32::from_be_bytes([v[2], v[3], v[4], v[5]]);
                let addrs = v[6..]
                    .chunks_exact(16)
                    .map(|c| {
                        let mut a = [0u8; 16];
                        a.copy_from_slice(c);
                        Ipv6Addr::from(a)
                    })
                    .collect();
                ra.rdnss.push((lifetime, addrs));
            }
            31 => {
                if l < 16 {
                    bad.push(format!("DNSSL option of {} octets carries no domain (minimum length is 2 units)", l));
                }
                if v[0] != 0 || v[1] != 0 {
                    bad.push("DNSSL reserved field not zero".into());
                }
                let lifetime = u32::from_be_bytes([v[2], v[3], v[4], v[5]]);
                let d = &v[6..];
                let mut domains = Vec::new();
                let mut i = 0;
                // domains until only zero padding remains
                while i < d.len() {
                    if d[i..].iter().all(|x| *x == 0) {
                        break;
                    }
                    let mut labels: Vec<String> = Vec::new();
                    loop {
                        if i >= d.len() {
                            bad.push("DNSSL domain not terminated".into());
                            break;
                        }
                        let ll = d[i] as usize;
                        i += 1;
                        if ll == 0 {
                            break;
                        }
                        if ll > 63 {
                            bad.push(format!("DNSSL label length {} > 63", ll));
                        }
                        if i + ll > d.len() {
                            bad.push("DNSSL label runs past the option".into());
                            i = d.len();
                            break;
                        }
                        labels.push(String::from_utf8_lossy(&d[i..i + ll]).to_string());
                        i += ll;
                    }
                    domains.push(labels.join("."));
                }
                if d.len() - i >= 8 {
                    bad.push(format!("DNSSL option padded with {} octets (more than needed)", d.len() - i));
                }
                ra.dnssl.push((lifetime, domains));
            }
            37 => {
                let end = v.iter().rposition(|x| *x != 0).map(|p| p + 1).unwrap_or(0);
                if v.len() - end >= 8 {
                    bad.push("captive portal option padded with 8 or more octets".into());
                }
                ra.captive_portal.push(v[..end].to_vec());
            }
            38 => {
                if l != 16 {
                    bad.push(format!("PREF64 option length {} != 16", l));
                } else {
                    let w = u16::from_be_bytes([v[0], v[1]]);
                    let scaled = (w >> 3) as u32;
                    let plc = w & 7;
                    let len = match plc {
                        0 => 96,
                        1 => 64,
                        2 => 56,
                        3 => 48,
                        4 => 40,
                        5 => 32,
                        _ => {
                            bad.push(format!("PREF64 prefix length code {} is reserved", plc));
                            0
                        }
                    };
                    let mut p = [0u8; 16];
                    p[..12].copy_from_slice(&v[2..14]);
                    ra.pref64.push((scaled * 8, len, Ipv6Addr::from(p)));
                }
            }
            t => ra.unknown_options.push(t),
        }
        o += l;
    }
    Ok((ra, bad))
}
