pub mod dhcp;
pub mod dns;
pub mod frame;
pub mod ra;
pub mod weakhash;
