//! Pairs of different labels that common cheap string hashes cannot tell apart.  A compression dictionary
//! (or a cache index) that identifies a label by such a fingerprint instead of by its octets behaves exactly
//! like a correct one until two of these meet as siblings in one message; random labels never do
//! (k siblings collide with probability k^2 / 2^33), so the workload is given the pairs: a birthday search
//! over a few hundred thousand plain labels per hash function, done once per process.
use crate::rng::Rng;
use std::sync::OnceLock;

fn fnv1a32(b: &[u8]) -> u32 {
    b.iter().fold(0x811c_9dc5u32, |h, c| (h ^ u32::from(*c)).wrapping_mul(0x0100_0193))
}
fn fnv1_32(b: &[u8]) -> u32 {
    b.iter().fold(0x811c_9dc5u32, |h, c| h.wrapping_mul(0x0100_0193) ^ u32::from(*c))
}
fn fnv1a64_folded(b: &[u8]) -> u32 {
    let h = b.iter().fold(0xcbf2_9ce4_8422_2325u64, |h, c| (h ^ u64::from(*c)).wrapping_mul(0x0000_0100_0000_01b3));
    (h ^ (h >> 32)) as u32
}
fn djb2(b: &[u8]) -> u32 {
    b.iter().fold(5381u32, |h, c| h.wrapping_mul(33).wrapping_add(u32::from(*c)))
}
fn djb2_xor(b: &[u8]) -> u32 {
    b.iter().fold(5381u32, |h, c| h.wrapping_mul(33) ^ u32::from(*c))
}
fn sdbm(b: &[u8]) -> u32 {
    b.iter().fold(0u32, |h, c| u32::from(*c).wrapping_add(h << 6).wrapping_add(h << 16).wrapping_sub(h))
}
fn times31(b: &[u8]) -> u32 {
    b.iter().fold(0u32, |h, c| h.wrapping_mul(31).wrapping_add(u32::from(*c)))
}
fn crc32(b: &[u8]) -> u32 {
    let mut crc = 0xffff_ffffu32;
    for c in b {
        crc ^= u32::from(*c);
        for _ in 0..8 {
            crc = if crc & 1 != 0 { (crc >> 1) ^ 0xedb8_8320 } else { crc >> 1 };
        }
    }
    !crc
}
fn adler32(b: &[u8]) -> u32 {
    let (mut a, mut s) = (1u32, 0u32);
    for c in b {
        a = (a + u32::from(*c)) % 65521;
        s = (s + a) % 65521;
    }
    (s << 16) | a
}
fn jenkins_oaat(b: &[u8]) -> u32 {
    let mut h = 0u32;
    for c in b {
        h = h.wrapping_add(u32::from(*c));
        h = h.wrapping_add(h << 10);
        h ^= h >> 6;
    }
    h = h.wrapping_add(h << 3);
    h ^= h >> 11;
    h.wrapping_add(h << 15)
}

pub type Pair = (Vec<u8>, Vec<u8>);

pub const HASHES: [(&str, fn(&[u8]) -> u32); 10] = [
    ("fnv1a32", fnv1a32),
    ("fnv1-32", fnv1_32),
    ("fnv1a64-folded", fnv1a64_folded),
    ("djb2", djb2),
    ("djb2-xor", djb2_xor),
    ("sdbm", sdbm),
    ("times31", times31),
    ("crc32", crc32),
    ("adler32", adler32),
    ("jenkins-oaat", jenkins_oaat),
];

/// (hash name, colliding pairs), at most `KEEP` pairs per hash.
pub fn collisions() -> &'static Vec<(&'static str, Vec<Pair>)> {
    static C: OnceLock<Vec<(&'static str, Vec<Pair>)>> = OnceLock::new();
    C.get_or_init(|| {
        const N: usize = 300_000;
        const KEEP: usize = 12;
        let mut r = Rng::new(0x14c0_111d);
        let cs = b"abcdefghijklmnopqrstuvwxyz0123456789-";
        let labels: Vec<Vec<u8>> = (0..N)
            .map(|_| {
                let n = r.range(4, 11) as usize;
                (0..n).map(|_| cs[r.usize(cs.len())]).collect()
            })
            .collect();
        HASHES
            .iter()
            .map(|(name, f)| {
                let mut hs: Vec<(u32, u32)> = labels.iter().enumerate().map(|(i, l)| (f(l), i as u32)).collect();
                hs.sort_unstable();
                let mut out = Vec::new();
                for w in hs.windows(2) {
                    if w[0].0 == w[1].0 && labels[w[0].1 as usize] != labels[w[1].1 as usize] {
                        out.push((labels[w[0].1 as usize].clone(), labels[w[1].1 as usize].clone()));
                        if out.len() >= KEEP {
                            break;
                        }
                    }
                }
                (*name, out)
            })
            .collect()
    })
}

/// One pair of sibling labels that some weak identity would confuse: a hash collision, or labels that differ
/// only in case / in one octet / by being a prefix of the other / in length with the same first octets.
pub fn confusable_pair(r: &mut Rng) -> (String, Pair) {
    let c = collisions();
    if r.chance(2, 3) {
        let with: Vec<&(&str, Vec<Pair>)> = c.iter().filter(|(_, v)| !v.is_empty()).collect();
        if !with.is_empty() {
            let (name, v) = *r.pick(&with);
            let p = r.pick(v).clone();
            return (format!("hash:{}", name), if r.bool() { p } else { (p.1, p.0) });
        }
    }
    let base: Vec<u8> = (0..r.range(3, 12)).map(|_| b'a' + r.below(26) as u8).collect();
    let mut other = base.clone();
    let how = match r.below(5) {
        0 => {
            let i = r.usize(other.len());
            other[i] ^= 0x01;
            "one-bit"
        }
        1 => {
            other.push(b'0' + r.below(10) as u8);
            "prefix"
        }
        2 => {
            other.reverse();
            if other == base {
                other.push(b'x');
            }
            "reversed"
        }
        3 => {
            let i = r.usize(other.len());
            other[i] = other[i].wrapping_add(0x80);
            "high-bit"
        }
        _ => {
            other.swap(0, base.len() - 1);
            if other == base {
                other.push(b'y');
            }
            "swapped-ends"
        }
    };
    (how.to_string(), if r.bool() { (base, other) } else { (other, base) })
}

/// Names that the usual textual renderings cannot tell apart from `n`: labels joined with '.', octets outside the
/// printable range written as a backslash and decimal digits (padded to three or not).  A dictionary, cache or
/// route table keyed on such a rendering instead of on the label sequence takes the twin for the name.
pub fn text_twins(n: &[Vec<u8>]) -> Vec<(Vec<Vec<u8>>, &'static str)> {
    let mut out = Vec::new();
    if n.len() >= 2 && n[0].len() + n[1].len() + 1 <= 63 {
        let mut m = n[0].clone();
        m.push(b'.');
        m.extend_from_slice(&n[1]);
        let mut t = vec![m];
        t.extend_from_slice(&n[2..]);
        out.push((t, "labels-merged"));
    }
    for (i, l) in n.iter().enumerate() {
        if let Some(p) = l.iter().position(|c| *c == b'.') {
            if p > 0 && p + 1 < l.len() {
                let mut t = n[..i].to_vec();
                t.push(l[..p].to_vec());
                t.push(l[p + 1..].to_vec());
                t.extend_from_slice(&n[i + 1..]);
                out.push((t, "label-split"));
            }
        }
        if let Some(p) = l.iter().position(|c| !(32..=127).contains(c)) {
            for (padded, how) in [(false, "escape-unpadded"), (true, "escape-padded")] {
                let esc = if padded { format!("\\{:03}", l[p]) } else { format!("\\{}", l[p]) };
                let mut m = l[..p].to_vec();
                m.extend_from_slice(esc.as_bytes());
                m.extend_from_slice(&l[p + 1..]);
                if m.len() <= 63 {
                    let mut t = n.to_vec();
                    t[i] = m;
                    out.push((t, how));
                }
            }
        }
        // two octets whose unpadded escapes run together: [1, '2'] prints like [12]
        if l.len() >= 2 && l[0] < 10 && l[1].is_ascii_digit() {
            let v = (l[0] as u32) * 10 + (l[1] - b'0') as u32;
            let mut m = vec![v as u8];
            m.extend_from_slice(&l[2..]);
            let mut t = n.to_vec();
            t[i] = m;
            out.push((t, "escapes-run-together"));
        }
    }
    out
}

/// A first label that has text twins (a dot, an unprintable octet, an octet followed by a digit).
pub fn twinnable_label(r: &mut Rng) -> Vec<u8> {
    match r.below(5) {
        0 => b"www.example".to_vec(),
        1 => {
            let mut l: Vec<u8> = (0..r.range(1, 6)).map(|_| b'a' + r.below(26) as u8).collect();
            l.push(b'.');
            l.extend((0..r.range(1, 6)).map(|_| b'a' + r.below(26) as u8));
            l
        }
        2 => vec![r.below(32) as u8],
        3 => vec![1 + r.below(9) as u8, b'0' + r.below(10) as u8],
        _ => {
            let mut l = vec![b'h', 128 + r.below(128) as u8];
            l.push(b'0' + r.below(10) as u8);
            l
        }
    }
}

#[cfg(test)]
mod tests {
    #[test]
    fn known_pair() {
        assert_eq!(super::fnv1a32(b"liquid"), super::fnv1a32(b"costarring"));
    }
}
