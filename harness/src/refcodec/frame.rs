//! Ethernet II / IPv4 / UDP frame decoder with checksum verification (RFC 791, 768, 1071).

use std::net::Ipv4Addr;

#[derive(Clone, Debug, PartialEq, Eq)]
pub struct UdpFrame {
    pub dst_mac: [u8; 6],
    pub src_mac: [u8; 6],
    pub src: Ipv4Addr,
    pub dst: Ipv4Addr,
    pub sport: u16,
    pub dport: u16,
    pub ttl: u8,
    pub payload: Vec<u8>,
    /// the UDP checksum field was zero ("not computed")
    pub udp_sum_absent: bool,
}

fn ones_sum(data: &[u8], mut acc: u32) -> u32 {
    let mut i = 0;
    while i + 1 < data.len() {
        acc += ((data[i] as u32) << 8) | data[i + 1] as u32;
        i += 2;
    }
    if i < data.len() {
        acc += (data[i] as u32) << 8;
    }
    acc
}

fn fold(mut acc: u32) -> u16 {
    while acc >> 16 != 0 {
        acc = (acc & 0xffff) + (acc >> 16);
    }
    acc as u16
}

/// RFC 768 checksum over pseudo header + UDP header (checksum field zeroed) + data.
pub fn udp_checksum(src: Ipv4Addr, dst: Ipv4Addr, udp: &[u8]) -> u16 {
    let mut acc = 0u32;
    acc = ones_sum(&src.octets(), acc);
    acc = ones_sum(&dst.octets(), acc);
    acc += 17;
    acc += udp.len() as u32;
    let mut copy = udp.to_vec();
    copy[6] = 0;
    copy[7] = 0;
    acc = ones_sum(&copy, acc);
    let c = !fold(acc);
    if c == 0 { 0xffff } else { c }
}

pub fn decode_udp4(f: &[u8]) -> Result<UdpFrame, String> {
    if f.len() < 14 + 20 + 8 {
        return Err(format!("frame of {} octets is too short", f.len()));
    }
    if f[12] != 0x08 || f[13] != 0x00 {
        return Err(format!("ethertype {:02x}{:02x} is not IPv4", f[12], f[13]));
    }
    let ip = &f[14..];
    if ip[0] >> 4 != 4 {
        return Err("IP version is not 4".into());
    }
    let ihl = (ip[0] & 0xf) as usize * 4;
    if ihl < 20 || ip.len() < ihl {
        return Err(format!("bad IHL {}", ihl));
    }
    let total = ((ip[2] as usize) << 8) | ip[3] as usize;
    if total != ip.len() {
        return Err(format!("IPv4 total length {} but {} octets follow the Ethernet header", total, ip.len()));
    }
    if fold(ones_sum(&ip[..ihl], 0)) != 0xffff {
        return Err("IPv4 header checksum does not verify".into());
    }
    let frag = ((ip[6] as u16) << 8 | ip[7] as u16) & 0x3fff;
    if frag != 0 {
        return Err("IPv4 datagram is a fragment".into());
    }
    if ip[9] != 17 {
        return Err(format!("IP protocol {} is not UDP", ip[9]));
    }
    let src = Ipv4Addr::new(ip[12], ip[13], ip[14], ip[15]);
    let dst = Ipv4Addr::new(ip[16], ip[17], ip[18], ip[19]);
    let udp = &ip[ihl..];
    if udp.len() < 8 {
        return Err("UDP header truncated".into());
    }
    let ulen = ((udp[4] as usize) << 8) | udp[5] as usize;
    if ulen != udp.len() {
        return Err(format!("UDP length {} but {} octets follow the IP header", ulen, udp.len()));
    }
    let field = ((udp[6] as u16) << 8) | udp[7] as u16;
    let want = udp_checksum(src, dst, udp);
    let absent = field == 0;
    if absent {
        // RFC 768: an all-zero field means "no checksum"; a computed zero is sent as 0xffff.
        // Accept a zero field only where the true one's-complement sum is itself zero.
        if want != 0xffff {
            return Err(format!("UDP checksum field is zero but the datagram's checksum is {:#06x}", want));
        }
    } else if field != want {
        return Err(format!("UDP checksum {:#06x} does not verify (expected {:#06x})", field, want));
    }
    let mut dm = [0u8; 6];
    dm.copy_from_slice(&f[0..6]);
    let mut sm = [0u8; 6];
    sm.copy_from_slice(&f[6..12]);
    Ok(UdpFrame {
        dst_mac: dm,
        src_mac: sm,
        src,
        dst,
        sport: ((udp[0] as u16) << 8) | udp[1] as u16,
        dport: ((udp[2] as u16) << 8) | udp[3] as u16,
        ttl: ip[8],
        payload: udp[8..].to_vec(),
        udp_sum_absent: absent,
    })
}
