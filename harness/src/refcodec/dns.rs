//! DNS message decoder / encoder written from RFC 1035, 3597 and 6891; shares no code with
//! erbium.  The decoder validates compression pointers and canonicalises record data (embedded
//! names expanded) so that two encodings of the same message compare equal.

use crate::rng::Rng;

pub type Name = Vec<Vec<u8>>;

#[derive(Clone, Debug, PartialEq, Eq)]
pub struct Question {
    pub name: Name,
    pub qtype: u16,
    pub qclass: u16,
}

#[derive(Clone, Debug, PartialEq, Eq)]
pub struct Rr {
    pub name: Name,
    pub rtype: u16,
    pub class: u16,
    pub ttl: u32,
    /// record data with every embedded (compressible) name written out uncompressed
    pub rdata: Vec<u8>,
}

#[derive(Clone, Debug, PartialEq, Eq, Default)]
pub struct Opt {
    pub udp_size: u16,
    pub ext_rcode: u8,
    pub version: u8,
    pub flags: u16,
    pub options: Vec<(u16, Vec<u8>)>,
}

#[derive(Clone, Debug, PartialEq, Eq, Default)]
pub struct Msg {
    pub id: u16,
    pub flags: u16,
    pub questions: Vec<Question>,
    pub answer: Vec<Rr>,
    pub authority: Vec<Rr>,
    /// additional section WITHOUT the OPT pseudo-record
    pub additional: Vec<Rr>,
    pub opt: Option<Opt>,
    pub n_opt: usize,
}

impl Msg {
    pub fn qr(&self) -> bool {
        self.flags & 0x8000 != 0
    }
    pub fn tc(&self) -> bool {
        self.flags & 0x0200 != 0
    }
    pub fn rd(&self) -> bool {
        self.flags & 0x0100 != 0
    }
    pub fn rcode(&self) -> u16 {
        (self.flags & 0x000f) | ((self.opt.as_ref().map(|o| o.ext_rcode).unwrap_or(0) as u16) << 4)
    }
    pub fn opcode(&self) -> u8 {
        ((self.flags >> 11) & 0xf) as u8
    }
}

#[derive(Clone, Debug, Default)]
pub struct Stats {
    pub pointers: usize,
    pub max_pointer_target: usize,
    pub trailing: usize,
    pub len: usize,
    pub max_name_wire_len: usize,
}

pub struct Decoder<'a> {
    b: &'a [u8],
    /// offsets at which a label (or the root) started in some name parsed so far
    label_starts: std::collections::BTreeSet<usize>,
    strict: bool,
    pub stats: Stats,
}

/// Types whose RDATA embeds domain names that RFC 1035 allows to be compressed (plus the ones
/// erbium itself re-encodes): layout described as a sequence of fields.
#[derive(Clone, Copy)]
enum F {
    Name,
    U16,
    U32,
    Str,
}

fn layout(rtype: u16) -> Option<&'static [F]> {
    Some(match rtype {
        2 | 5 | 12 => &[F::Name],                                   // NS CNAME PTR
        15 | 21 | 18 => &[F::U16, F::Name],                         // MX RT AFSDB
        6 => &[F::Name, F::Name, F::U32, F::U32, F::U32, F::U32, F::U32], // SOA
        17 => &[F::Name, F::Name],                                  // RP
        35 => &[F::U16, F::U16, F::Str, F::Str, F::Str, F::Name],   // NAPTR
        _ => return None,
    })
}

pub fn has_layout(rtype: u16) -> bool {
    layout(rtype).is_some()
}

impl<'a> Decoder<'a> {
    pub fn new(b: &'a [u8], strict: bool) -> Self {
        Decoder {
            b,
            label_starts: Default::default(),
            strict,
            stats: Stats {
                len: b.len(),
                ..Default::default()
            },
        }
    }

    fn u8(&self, o: usize) -> Result<u8, String> {
        self.b
            .get(o)
            .copied()
            .ok_or_else(|| format!("truncated at {}", o))
    }
    fn u16(&self, o: usize) -> Result<u16, String> {
        Ok(((self.u8(o)? as u16) << 8) | self.u8(o + 1)? as u16)
    }
    fn u32(&self, o: usize) -> Result<u32, String> {
        Ok(((self.u16(o)? as u32) << 16) | self.u16(o + 2)? as u32)
    }

    /// Parse a name at `o`; returns (name, offset after the name in the original stream).
    fn name(&mut self, o: usize) -> Result<(Name, usize), String> {
        let start = o;
        let mut labels: Name = Vec::new();
        let mut pos = o;
        let mut end: Option<usize> = None;
        let mut hops = 0;
        let mut new_starts = Vec::new();
        let mut wire_len = 0usize;
        loop {
            let l = self.u8(pos)?;
            match l & 0xc0 {
                0x00 => {
                    if end.is_none() {
                        new_starts.push(pos);
                    }
                    if l == 0 {
                        if end.is_none() {
                            end = Some(pos + 1);
                        }
                        break;
                    }
                    let l = l as usize;
                    if pos + 1 + l > self.b.len() {
                        return Err(format!("label at {} runs past the end", pos));
                    }
                    labels.push(self.b[pos + 1..pos + 1 + l].to_vec());
                    wire_len += 1 + l;
                    pos += 1 + l;
                }
                0xc0 => {
                    let target = (((l & 0x3f) as usize) << 8) | self.u8(pos + 1)? as usize;
                    self.stats.pointers += 1;
                    self.stats.max_pointer_target = self.stats.max_pointer_target.max(target);
                    if end.is_none() {
                        end = Some(pos + 2);
                    }
                    if self.strict {
                        if target >= start {
                            return Err(format!(
                                "pointer at {} targets {} which is not before the name at {}",
                                pos, target, start
                            ));
                        }
                        if !self.label_starts.contains(&target) {
                            return Err(format!(
                                "pointer at {} targets {} which is not the start of a label of an earlier name",
                                pos, target
                            ));
                        }
                    } else if target >= self.b.len() {
                        return Err(format!("pointer at {} targets {} beyond the message", pos, target));
                    }
                    hops += 1;
                    if hops > 128 {
                        return Err("pointer loop".into());
                    }
                    pos = target;
                }
                _ => return Err(format!("label type {:#x} at {}", l, pos)),
            }
        }
        self.stats.max_name_wire_len = self.stats.max_name_wire_len.max(wire_len + 1);
        for s in new_starts {
            self.label_starts.insert(s);
        }
        Ok((labels, end.unwrap()))
    }

    fn rr(&mut self, o: usize) -> Result<(Rr, usize), String> {
        let (name, o) = self.name(o)?;
        let rtype = self.u16(o)?;
        let class = self.u16(o + 2)?;
        let ttl = self.u32(o + 4)?;
        let rdlen = self.u16(o + 8)? as usize;
        let rstart = o + 10;
        let rend = rstart + rdlen;
        if rend > self.b.len() {
            return Err(format!("rdata of record at {} runs past the end", o));
        }
        let mut rdata = Vec::new();
        if rtype != 41 {
            if let Some(fields) = layout(rtype) {
                let mut p = rstart;
                for f in fields {
                    match f {
                        F::Name => {
                            let (n, np) = self.name(p)?;
                            push_name(&mut rdata, &n);
                            p = np;
                        }
                        F::U16 => {
                            rdata.extend_from_slice(&self.u16(p)?.to_be_bytes());
                            p += 2;
                        }
                        F::U32 => {
                            rdata.extend_from_slice(&self.u32(p)?.to_be_bytes());
                            p += 4;
                        }
                        F::Str => {
                            let l = self.u8(p)? as usize;
                            if p + 1 + l > self.b.len() {
                                return Err("character-string runs past the end".into());
                            }
                            rdata.extend_from_slice(&self.b[p..p + 1 + l]);
                            p += 1 + l;
                        }
                    }
                    if p > rend {
                        return Err(format!(
                            "rdata fields of type {} overrun rdlength ({} > {})",
                            rtype, p, rend
                        ));
                    }
                }
                if p != rend {
                    return Err(format!(
                        "rdata of type {} has {} unparsed octets",
                        rtype,
                        rend - p
                    ));
                }
            } else {
                rdata.extend_from_slice(&self.b[rstart..rend]);
            }
        } else {
            rdata.extend_from_slice(&self.b[rstart..rend]);
        }
        Ok((
            Rr {
                name,
                rtype,
                class,
                ttl,
                rdata,
            },
            rend,
        ))
    }

    pub fn message(&mut self) -> Result<Msg, String> {
        if self.b.len() < 12 {
            return Err(format!("short header ({} octets)", self.b.len()));
        }
        let mut m = Msg {
            id: self.u16(0)?,
            flags: self.u16(2)?,
            ..Default::default()
        };
        let qd = self.u16(4)?;
        let an = self.u16(6)?;
        let ns = self.u16(8)?;
        let ar = self.u16(10)?;
        let mut o = 12;
        for _ in 0..qd {
            let (name, p) = self.name(o)?;
            m.questions.push(Question {
                name,
                qtype: self.u16(p)?,
                qclass: self.u16(p + 2)?,
            });
            o = p + 4;
        }
        for (count, which) in [(an, 0), (ns, 1), (ar, 2)] {
            for i in 0..count {
                let (rr, p) = self
                    .rr(o)
                    .map_err(|e| format!("section {} record {}/{}: {}", which, i, count, e))?;
                o = p;
                match which {
                    0 => m.answer.push(rr),
                    1 => m.authority.push(rr),
                    _ => {
                        if rr.rtype == 41 {
                            m.n_opt += 1;
                            if m.opt.is_none() {
                                let mut options = Vec::new();
                                let mut q = 0;
                                let d = &rr.rdata;
                                while q < d.len() {
                                    if q + 4 > d.len() {
                                        return Err("truncated EDNS option header".into());
                                    }
                                    let code = ((d[q] as u16) << 8) | d[q + 1] as u16;
                                    let l = (((d[q + 2] as u16) << 8) | d[q + 3] as u16) as usize;
                                    if q + 4 + l > d.len() {
                                        return Err("truncated EDNS option".into());
                                    }
                                    options.push((code, d[q + 4..q + 4 + l].to_vec()));
                                    q += 4 + l;
                                }
                                if !rr.name.is_empty() {
                                    return Err("OPT owner is not the root".into());
                                }
                                m.opt = Some(Opt {
                                    udp_size: rr.class,
                                    ext_rcode: (rr.ttl >> 24) as u8,
                                    version: (rr.ttl >> 16) as u8,
                                    flags: rr.ttl as u16,
                                    options,
                                });
                            }
                        } else {
                            m.additional.push(rr);
                        }
                    }
                }
            }
        }
        self.stats.trailing = self.b.len() - o;
        if self.strict && o != self.b.len() {
            return Err(format!("{} trailing octets after the last record", self.b.len() - o));
        }
        Ok(m)
    }
}

pub fn decode(b: &[u8], strict: bool) -> Result<(Msg, Stats), String> {
    let mut d = Decoder::new(b, strict);
    let m = d.message()?;
    Ok((m, d.stats))
}

pub fn push_name(out: &mut Vec<u8>, n: &Name) {
    for l in n {
        out.push(l.len() as u8);
        out.extend_from_slice(l);
    }
    out.push(0);
}

pub fn name_to_string(n: &Name) -> String {
    if n.is_empty() {
        return ".".into();
    }
    n.iter()
        .map(|l| {
            l.iter()
                .map(|b| {
                    if b.is_ascii_graphic() && *b != b'.' && *b != b'\\' {
                        (*b as char).to_string()
                    } else {
                        format!("\\{:03}", b)
                    }
                })
                .collect::<String>()
        })
        .collect::<Vec<_>>()
        .join(".")
}

pub fn name_from_str(s: &str) -> Name {
    s.split('.')
        .filter(|l| !l.is_empty())
        .map(|l| l.as_bytes().to_vec())
        .collect()
}

// ---------------------------------------------------------------------------------------------
// Encoder (used to build upstream replies and queries); compression is the caller's choice.
// ---------------------------------------------------------------------------------------------

#[derive(Clone, Copy, PartialEq, Eq, Debug)]
pub enum Compress {
    None,
    Full,
    /// compress owner names only (what most servers do for unknown types)
    Random(u64),
}

pub struct Encoder {
    pub out: Vec<u8>,
    mode: Compress,
    /// suffix (as wire-format uncompressed bytes) -> offset
    known: std::collections::HashMap<Vec<u8>, usize>,
    rng: Rng,
}

impl Encoder {
    pub fn new(mode: Compress) -> Self {
        let seed = match mode {
            Compress::Random(s) => s,
            _ => 0,
        };
        Encoder {
            out: Vec::new(),
            mode,
            known: Default::default(),
            rng: Rng::new(seed),
        }
    }

    pub fn name(&mut self, n: &Name) {
        for i in 0..n.len() {
            let mut key = Vec::new();
            push_name(&mut key, &n[i..].to_vec());
            let use_ptr = match self.mode {
                Compress::None => false,
                Compress::Full => true,
                Compress::Random(_) => self.rng.bool(),
            };
            if let Some(off) = self.known.get(&key) {
                if use_ptr && *off < 0x4000 {
                    self.out.push(0xc0 | (*off >> 8) as u8);
                    self.out.push(*off as u8);
                    return;
                }
            } else if self.out.len() < 0x4000 {
                self.known.insert(key, self.out.len());
            }
            self.out.push(n[i].len() as u8);
            self.out.extend_from_slice(&n[i]);
        }
        self.out.push(0);
    }

    /// `rdata` is canonical (uncompressed names); known layouts are re-walked so that names can
    /// be compressed.
    pub fn rr(&mut self, rr: &Rr) {
        self.name(&rr.name);
        self.out.extend_from_slice(&rr.rtype.to_be_bytes());
        self.out.extend_from_slice(&rr.class.to_be_bytes());
        self.out.extend_from_slice(&rr.ttl.to_be_bytes());
        let lenpos = self.out.len();
        self.out.extend_from_slice(&[0, 0]);
        let start = self.out.len();
        match layout(rr.rtype) {
            Some(fields) if rr.rtype != 41 && self.mode != Compress::None => {
                let d = &rr.rdata;
                let mut p = 0;
                for f in fields {
                    match f {
                        F::Name => {
                            let mut n: Name = Vec::new();
                            while p < d.len() && d[p] != 0 {
                                let l = d[p] as usize;
                                n.push(d[p + 1..p + 1 + l].to_vec());
                                p += 1 + l;
                            }
                            p += 1;
                            self.name(&n);
                        }
                        F::U16 => {
                            self.out.extend_from_slice(&d[p..p + 2]);
                            p += 2;
                        }
                        F::U32 => {
                            self.out.extend_from_slice(&d[p..p + 4]);
                            p += 4;
                        }
                        F::Str => {
                            let l = d[p] as usize;
                            self.out.extend_from_slice(&d[p..p + 1 + l]);
                            p += 1 + l;
                        }
                    }
                }
            }
            _ => self.out.extend_from_slice(&rr.rdata),
        }
        let l = (self.out.len() - start) as u16;
        self.out[lenpos] = (l >> 8) as u8;
        self.out[lenpos + 1] = l as u8;
    }
}

pub fn opt_rr(o: &Opt) -> Rr {
    let mut rdata = Vec::new();
    for (c, v) in &o.options {
        rdata.extend_from_slice(&c.to_be_bytes());
        rdata.extend_from_slice(&(v.len() as u16).to_be_bytes());
        rdata.extend_from_slice(v);
    }
    Rr {
        name: vec![],
        rtype: 41,
        class: o.udp_size,
        ttl: ((o.ext_rcode as u32) << 24) | ((o.version as u32) << 16) | o.flags as u32,
        rdata,
    }
}

pub fn encode(m: &Msg, mode: Compress) -> Vec<u8> {
    let mut e = Encoder::new(mode);
    e.out.extend_from_slice(&m.id.to_be_bytes());
    e.out.extend_from_slice(&m.flags.to_be_bytes());
    e.out
        .extend_from_slice(&(m.questions.len() as u16).to_be_bytes());
    e.out
        .extend_from_slice(&(m.answer.len() as u16).to_be_bytes());
    e.out
        .extend_from_slice(&(m.authority.len() as u16).to_be_bytes());
    let ar = m.additional.len() + if m.opt.is_some() { 1 } else { 0 };
    e.out.extend_from_slice(&(ar as u16).to_be_bytes());
    for q in &m.questions {
        e.name(&q.name);
        e.out.extend_from_slice(&q.qtype.to_be_bytes());
        e.out.extend_from_slice(&q.qclass.to_be_bytes());
    }
    for rr in m.answer.iter().chain(m.authority.iter()).chain(m.additional.iter()) {
        e.rr(rr);
    }
    if let Some(o) = &m.opt {
        e.rr(&opt_rr(o));
    }
    e.out
}

// ---------------------------------------------------------------------------------------------
// Generators
// ---------------------------------------------------------------------------------------------

pub fn gen_label(r: &mut Rng, hostile: bool) -> Vec<u8> {
    let n = match r.below(10) {
        0 => 1,
        1 => 63,
        2 => r.range(20, 63) as usize,
        _ => r.range(1, 10) as usize,
    };
    (0..n)
        .map(|_| {
            if hostile && r.chance(1, 8) {
                r.u8()
            } else {
                let cs = b"abcdefghijklmnopqrstuvwxyzABCDEFGHIJKLMNOPQRSTUVWXYZ0123456789-_";
                cs[r.usize(cs.len())]
            }
        })
        .collect()
}

/// A pool of names sharing suffixes at every depth.
pub fn gen_name_pool(r: &mut Rng, n: usize, hostile: bool) -> Vec<Name> {
    let mut pool: Vec<Name> = vec![vec![]];
    for _ in 0..n {
        let base = r.pick(&pool).clone();
        let mut name = base;
        let add = r.range(1, 3);
        for _ in 0..add {
            let mut l = gen_label(r, hostile);
            let cur: usize = name.iter().map(|x| x.len() + 1).sum::<usize>() + 1;
            if cur + 2 > 255 {
                break;
            }
            if cur + l.len() + 1 > 255 {
                l.truncate((255 - cur - 1).max(1).min(l.len()));
                if cur + l.len() + 1 > 255 {
                    break;
                }
            }
            name.insert(0, l);
        }
        pool.push(name);
    }
    pool
}

pub const NAME_TYPES: [u16; 9] = [2, 5, 12, 15, 21, 18, 6, 17, 35];

pub fn gen_rdata(r: &mut Rng, rtype: u16, names: &[Name], max_opaque: usize) -> Vec<u8> {
    let mut d = Vec::new();
    match layout(rtype) {
        Some(fields) => {
            for f in fields {
                match f {
                    F::Name => push_name(&mut d, r.pick(names)),
                    F::U16 => d.extend_from_slice(&r.u16().to_be_bytes()),
                    F::U32 => d.extend_from_slice(&r.u32_edgy().to_be_bytes()),
                    F::Str => {
                        let l = match r.below(4) {
                            0 => 0,
                            1 => 255,
                            _ => r.range(0, 20) as usize,
                        };
                        d.push(l as u8);
                        d.extend(r.bytes(l));
                    }
                }
            }
        }
        None => {
            let l = match rtype {
                1 => 4,
                28 => 16,
                _ => r.len_biased(max_opaque),
            };
            d = r.bytes(l);
        }
    }
    d
}

pub fn gen_rr(r: &mut Rng, names: &[Name], max_opaque: usize) -> Rr {
    let rtype = match r.below(10) {
        0..=3 => *r.pick(&NAME_TYPES),
        4..=5 => 1,
        6 => 28,
        7 => 16,
        8 => *r.pick(&[33u16, 43, 46, 48, 99, 257, 65280, 65535, 0, 3, 4, 7, 13, 24]),
        _ => {
            let t = r.u16();
            if t == 41 || has_layout(t) { 16 } else { t }
        }
    };
    let class = match r.below(8) {
        0 => 3,
        1 => r.u16(),
        _ => 1,
    };
    Rr {
        name: r.pick(names).clone(),
        rtype,
        class,
        ttl: match r.below(6) {
            0 => r.u32_edgy(),
            1 => 0,
            _ => r.range(1, 86_400) as u32,
        },
        rdata: gen_rdata(r, rtype, names, max_opaque),
    }
}

/// A query as a client would send it.
pub fn gen_query(r: &mut Rng, name: Name, hostile: bool) -> Msg {
    let qtype = match r.below(8) {
        0 => *r.pick(&NAME_TYPES),
        1 => 28,
        2 => 16,
        3 if hostile => r.u16(),
        _ => 1,
    };
    let qtype = if qtype == 255 || qtype == 41 { 1 } else { qtype };
    let opt = if r.chance(2, 3) {
        let mut options = Vec::new();
        if r.chance(1, 3) {
            options.push((10u16, r.bytes(8)));
        }
        if r.chance(1, 5) {
            options.push((3u16, vec![]));
        }
        if r.chance(1, 6) {
            options.push((8u16, vec![0, 1, 24, 0, 192, 0, 2]));
        }
        Some(Opt {
            udp_size: *r.pick(&[512u16, 1232, 4096, 65535, 1400, 0, 256]),
            ext_rcode: 0,
            version: 0,
            flags: if r.bool() { 0x8000 } else { 0 },
            options,
        })
    } else {
        None
    };
    let mut flags = 0x0100u16; // RD
    if r.chance(1, 4) {
        flags |= 0x0010; // CD
    }
    if r.chance(1, 8) {
        flags |= 0x0020; // AD
    }
    Msg {
        id: r.u16(),
        flags,
        questions: vec![Question {
            name,
            qtype,
            qclass: if hostile && r.chance(1, 10) { 3 } else { 1 },
        }],
        opt,
        ..Default::default()
    }
}

/// An upstream reply to `q` with `nrec` records spread over the three sections.
pub fn gen_reply(r: &mut Rng, q: &Msg, nrec: usize, max_opaque: usize, hostile_names: bool) -> Msg {
    let mut names = gen_name_pool(r, 3 + nrec.min(40) / 2, hostile_names);
    if let Some(qq) = q.questions.first() {
        names.push(qq.name.clone());
        for i in 1..qq.name.len() {
            names.push(qq.name[i..].to_vec());
        }
    }
    let rcode = match r.below(6) {
        0 => r.below(16) as u16,
        1 => 3,
        _ => 0,
    };
    let mut flags = 0x8000 | (q.flags & 0x0100) | 0x0080 | rcode;
    if r.chance(1, 4) {
        flags |= 0x0400; // AA
    }
    if r.chance(1, 6) {
        flags |= 0x0020; // AD
    }
    if q.flags & 0x0010 != 0 {
        flags |= 0x0010;
    }
    let mut m = Msg {
        id: q.id,
        flags,
        questions: q.questions.clone(),
        ..Default::default()
    };
    let split = match r.below(5) {
        0 => (nrec, 0),
        1 => (0, nrec),
        _ => {
            let a = r.usize(nrec + 1);
            let b = r.usize(nrec - a + 1);
            (a, b)
        }
    };
    for i in 0..nrec {
        let rr = gen_rr(r, &names, max_opaque);
        if rr.rtype == 41 {
            continue;
        }
        if i < split.0 {
            m.answer.push(rr);
        } else if i < split.0 + split.1 {
            m.authority.push(rr);
        } else {
            m.additional.push(rr);
        }
    }
    if r.chance(1, 5) {
        // the same record twice in a row (a weighted pool listing a backend twice): records are never dropped
        for sec in [&mut m.answer, &mut m.authority, &mut m.additional] {
            if !sec.is_empty() && r.bool() {
                let k = r.usize(sec.len());
                let dup = sec[k].clone();
                sec.insert(k + 1, dup);
            }
        }
    }
    if r.chance(3, 4) {
        let mut options = Vec::new();
        if r.chance(1, 4) {
            options.push((15u16, vec![0, r.below(25) as u8, b'x']));
        }
        m.opt = Some(Opt {
            udp_size: *r.pick(&[512u16, 1232, 4096]),
            // the extended rcode is a full octet (12 bit rcodes up to 4095)
            ext_rcode: match r.below(10) {
                0 => r.below(3) as u8,
                1 => r.u8(),
                2 => *r.pick(&[0x10u8, 0x80, 0xab, 0xff]),
                _ => 0,
            },
            version: 0,
            flags: if q.opt.as_ref().map(|o| o.flags & 0x8000 != 0).unwrap_or(false) { 0x8000 } else { 0 },
            options,
        });
    }
    m
}

pub fn rr_brief(rr: &Rr) -> String {
    format!("{} t{} c{} ttl{} rd{}", name_to_string(&rr.name), rr.rtype, rr.class, rr.ttl, rr.rdata.len())
}
