//! DHCP (RFC 2131 / 2132 / 3396) encoder and decoder written from the RFCs; shares no code with
//! erbium.  Options are kept as an ordered list of (code, value) after RFC 3396 concatenation.

use std::net::Ipv4Addr;

pub const MAGIC: [u8; 4] = [0x63, 0x82, 0x53, 0x63];

#[derive(Clone, Debug, PartialEq, Eq)]
pub struct Msg {
    pub op: u8,
    pub htype: u8,
    pub hlen: u8,
    pub hops: u8,
    pub xid: u32,
    pub secs: u16,
    pub flags: u16,
    pub ciaddr: Ipv4Addr,
    pub yiaddr: Ipv4Addr,
    pub siaddr: Ipv4Addr,
    pub giaddr: Ipv4Addr,
    /// exactly hlen octets (0..=16)
    pub chaddr: Vec<u8>,
    /// up to 64 / 128 octets, no NUL inside
    pub sname: Vec<u8>,
    pub file: Vec<u8>,
    /// (code 1..=254, value); a code appears at most once after concatenation
    pub options: Vec<(u8, Vec<u8>)>,
}

impl Default for Msg {
    fn default() -> Self {
        Msg {
            op: 1,
            htype: 1,
            hlen: 6,
            hops: 0,
            xid: 0,
            secs: 0,
            flags: 0,
            ciaddr: Ipv4Addr::UNSPECIFIED,
            yiaddr: Ipv4Addr::UNSPECIFIED,
            siaddr: Ipv4Addr::UNSPECIFIED,
            giaddr: Ipv4Addr::UNSPECIFIED,
            chaddr: vec![0, 0, 0x5e, 0, 0x53, 0],
            sname: vec![],
            file: vec![],
            options: vec![],
        }
    }
}

impl Msg {
    pub fn opt(&self, code: u8) -> Option<&[u8]> {
        self.options
            .iter()
            .find(|(c, _)| *c == code)
            .map(|(_, v)| v.as_slice())
    }
    pub fn set_opt(&mut self, code: u8, v: Vec<u8>) {
        if let Some(e) = self.options.iter_mut().find(|(c, _)| *c == code) {
            e.1 = v;
        } else {
            self.options.push((code, v));
        }
    }
    pub fn client_identity(&self) -> Vec<u8> {
        match self.opt(61) {
            Some(v) => v.to_vec(),
            None => self.chaddr.clone(),
        }
    }
}

fn fixed(out: &mut Vec<u8>, v: &[u8], n: usize) {
    let mut b = v.to_vec();
    b.truncate(n);
    b.resize(n, 0);
    out.extend_from_slice(&b);
}

/// Encode; values longer than 255 octets are split into consecutive instances (RFC 3396).
pub fn encode(m: &Msg) -> Vec<u8> {
    let mut o = Vec::with_capacity(300);
    o.push(m.op);
    o.push(m.htype);
    o.push(m.hlen);
    o.push(m.hops);
    o.extend_from_slice(&m.xid.to_be_bytes());
    o.extend_from_slice(&m.secs.to_be_bytes());
    o.extend_from_slice(&m.flags.to_be_bytes());
    o.extend_from_slice(&m.ciaddr.octets());
    o.extend_from_slice(&m.yiaddr.octets());
    o.extend_from_slice(&m.siaddr.octets());
    o.extend_from_slice(&m.giaddr.octets());
    fixed(&mut o, &m.chaddr, 16);
    fixed(&mut o, &m.sname, 64);
    fixed(&mut o, &m.file, 128);
    o.extend_from_slice(&MAGIC);
    for (c, v) in &m.options {
        if v.is_empty() {
            o.push(*c);
            o.push(0);
        } else {
            for chunk in v.chunks(255) {
                o.push(*c);
                o.push(chunk.len() as u8);
                o.extend_from_slice(chunk);
            }
        }
    }
    o.push(255);
    o
}

fn until_nul(v: &[u8]) -> Vec<u8> {
    match v.iter().position(|b| *b == 0) {
        Some(p) => v[..p].to_vec(),
        None => v.to_vec(),
    }
}

fn walk_options(b: &[u8], out: &mut Vec<(u8, Vec<u8>)>) -> Result<bool, String> {
    let mut i = 0;
    while i < b.len() {
        let c = b[i];
        i += 1;
        if c == 0 {
            continue;
        }
        if c == 255 {
            return Ok(true);
        }
        if i >= b.len() {
            return Err("option without length".into());
        }
        let l = b[i] as usize;
        i += 1;
        if i + l > b.len() {
            return Err("option value runs past end".into());
        }
        let v = &b[i..i + l];
        i += l;
        if let Some(e) = out.iter_mut().find(|(k, _)| *k == c) {
            e.1.extend_from_slice(v);
        } else {
            out.push((c, v.to_vec()));
        }
    }
    Ok(false)
}

/// Decode.  `strict_end` demands the end option (255) in the options field; `overload`
/// interprets option 52 (options continued in file / sname).
pub fn decode(b: &[u8], strict_end: bool, overload: bool) -> Result<Msg, String> {
    if b.len() < 240 {
        return Err(format!("short message ({} < 240)", b.len()));
    }
    if b[236..240] != MAGIC {
        return Err("bad magic cookie".into());
    }
    let hlen = b[2];
    if hlen as usize > 16 {
        return Err("hlen > 16".into());
    }
    let ip = |o: usize| Ipv4Addr::new(b[o], b[o + 1], b[o + 2], b[o + 3]);
    let mut options = Vec::new();
    let ended = walk_options(&b[240..], &mut options)?;
    if strict_end && !ended {
        return Err("options field lacks the end option".into());
    }
    // Option overload (52): file and/or sname carry options.
    let mut sname = until_nul(&b[44..108]);
    let mut file = until_nul(&b[108..236]);
    if let Some((_, ov)) = options.iter().find(|(c, _)| *c == 52).cloned() {
        if overload && ov.len() == 1 {
            if ov[0] & 1 != 0 {
                walk_options(&b[108..236], &mut options)?;
                file = vec![];
            }
            if ov[0] & 2 != 0 {
                walk_options(&b[44..108], &mut options)?;
                sname = vec![];
            }
        }
    }
    Ok(Msg {
        op: b[0],
        htype: b[1],
        hlen,
        hops: b[3],
        xid: u32::from_be_bytes([b[4], b[5], b[6], b[7]]),
        secs: u16::from_be_bytes([b[8], b[9]]),
        flags: u16::from_be_bytes([b[10], b[11]]),
        ciaddr: ip(12),
        yiaddr: ip(16),
        siaddr: ip(20),
        giaddr: ip(24),
        chaddr: b[28..28 + hlen as usize].to_vec(),
        sname,
        file,
        options,
    })
}
