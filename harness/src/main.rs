#![allow(dead_code)]
//! vh: in-process verification harness for isomer/erbium (runtime monitoring family).
//! Every subcommand drives real erbium code under generated workloads with monitors watching and
//! writes a leg report (JSON) that the `check` driver turns into verdicts and evidence.

mod corpus;
mod guard;
mod legs;
mod model;
mod mutate;
mod refcodec;
mod report;
mod rng;

use std::collections::HashMap;
use std::time::Instant;

pub struct Args {
    pub cmd: String,
    pub kv: HashMap<String, String>,
}

impl Args {
    fn parse() -> Args {
        let mut it = std::env::args().skip(1);
        let cmd = it.next().unwrap_or_else(|| "help".into());
        let mut kv = HashMap::new();
        let rest: Vec<String> = it.collect();
        let mut i = 0;
        while i < rest.len() {
            if let Some(k) = rest[i].strip_prefix("--") {
                let v = rest.get(i + 1).cloned().unwrap_or_default();
                kv.insert(k.to_string(), v);
                i += 2;
            } else {
                i += 1;
            }
        }
        Args { cmd, kv }
    }
    pub fn u64(&self, k: &str, d: u64) -> u64 {
        self.kv.get(k).and_then(|v| v.parse().ok()).unwrap_or(d)
    }
    pub fn str(&self, k: &str, d: &str) -> String {
        self.kv.get(k).cloned().unwrap_or_else(|| d.into())
    }
    pub fn thorough(&self) -> bool {
        self.str("tier", "quick") == "thorough"
    }
}

fn scratch_dir() -> std::path::PathBuf {
    let base = if std::path::Path::new("/dev/shm").is_dir() {
        std::path::PathBuf::from("/dev/shm")
    } else {
        std::env::temp_dir()
    };
    let d = base.join(format!("verif-vh-{}", std::process::id()));
    let _ = std::fs::create_dir_all(&d);
    d
}

fn main() {
    let args = Args::parse();
    guard::install();
    let seed = args.u64("seed", 1);
    let tier = args.str("tier", "quick");
    let out = args.str("out", "");
    let t0 = Instant::now();
    let scratch = scratch_dir();
    let shards = args.u64("shards", 16);

    let replay_value = args.kv.get("replay").map(|path| {
        serde_json::from_str::<serde_json::Value>(
            &std::fs::read_to_string(path).expect("replay file"),
        )
        .expect("replay json")
    });

    let leg = match args.cmd.as_str() {
        "dhcp-hist" => {
            guard::start_watchdog("dhcp-hist", std::time::Duration::from_secs(120));
            let prop = legs::dhcp_hist::prop_from(&args.str("prop", "C01")).expect("unknown --prop");
            if let Some(path) = args.kv.get("replay") {
                let v: serde_json::Value =
                    serde_json::from_str(&std::fs::read_to_string(path).expect("replay file"))
                        .expect("replay json");
                legs::dhcp_hist::replay(&v, &scratch)
            } else {
                let p = if args.thorough() {
                    legs::dhcp_hist::HistParams {
                        histories: args.u64("histories", 32_000),
                        min_steps: 60,
                        max_steps: 200,
                        shards,
                    }
                } else {
                    legs::dhcp_hist::HistParams {
                        histories: args.u64("histories", 480),
                        min_steps: 40,
                        max_steps: 80,
                        shards,
                    }
                };
                legs::dhcp_hist::run(prop, seed, &p, &scratch)
            }
        }
        "c05" => {
            guard::start_watchdog("c05", std::time::Duration::from_secs(120));
            if let Some(path) = args.kv.get("replay") {
                let v: serde_json::Value =
                    serde_json::from_str(&std::fs::read_to_string(path).expect("replay file"))
                        .expect("replay json");
                legs::c05::replay(&v)
            } else {
                let budget = args.u64("budget", if args.thorough() { 30_000_000 } else { 120_000 });
                legs::c05::run(seed, args.thorough(), shards, budget)
            }
        }
        "c12" => {
            guard::start_watchdog("c12", std::time::Duration::from_secs(120));
            match &replay_value {
                Some(v) => legs::c12::replay(v),
                None => legs::c12::run(seed, args.thorough(), shards),
            }
        }
        "c14" => {
            guard::start_watchdog("c14", std::time::Duration::from_secs(120));
            match &replay_value {
                Some(v) => legs::dnswire::replay_c14(v),
                None => legs::dnswire::run_c14(seed, args.thorough(), shards),
            }
        }
        "c04" => {
            guard::start_watchdog("c04", std::time::Duration::from_secs(120));
            match &replay_value {
                Some(v) => legs::dnswire::replay_c04(v),
                None => legs::dnswire::run_c04(seed, args.thorough(), shards),
            }
        }
        "c03" => {
            guard::start_watchdog("c03", std::time::Duration::from_secs(120));
            match &replay_value {
                Some(v) => legs::dnswire::replay_c03(v),
                None => legs::dnswire::run_c03(seed, args.thorough(), shards),
            }
        }
        "c06" => {
            guard::start_watchdog("c06", std::time::Duration::from_secs(120));
            match &replay_value {
                Some(v) => legs::dnsmisc::replay_c06(v),
                None => legs::dnsmisc::run_c06(seed, args.thorough(), shards),
            }
        }
        "c16" => {
            guard::start_watchdog("c16", std::time::Duration::from_secs(120));
            match &replay_value {
                Some(v) => legs::dnsmisc::replay_c16(v),
                None => legs::dnsmisc::run_c16(seed, args.thorough(), shards),
            }
        }
        "c08" => {
            guard::start_watchdog("c08", std::time::Duration::from_secs(120));
            match &replay_value {
                Some(v) => legs::c08::replay(v),
                None => legs::c08::run(seed, args.thorough(), shards),
            }
        }
        "c17" => {
            guard::start_watchdog("c17", std::time::Duration::from_secs(120));
            match &replay_value {
                Some(v) => legs::c17::replay(v),
                None => legs::c17::run(seed, args.thorough(), shards),
            }
        }
        "c18-schema" => {
            guard::start_watchdog("c18-schema", std::time::Duration::from_secs(120));
            match &replay_value {
                Some(v) => legs::c18schema::replay(v, &scratch),
                None => legs::c18schema::run(seed, args.thorough(), shards, &scratch),
            }
        }
        "c19" => {
            guard::start_watchdog("c19", std::time::Duration::from_secs(120));
            match &replay_value {
                Some(v) => legs::c19::replay(v),
                None => legs::c19::run(seed, args.thorough(), shards),
            }
        }
        "c02" => {
            guard::start_watchdog("c02", std::time::Duration::from_secs(300));
            match &replay_value {
                Some(v) => legs::dhcpconf::replay_c02(v),
                None => legs::dhcpconf::run_c02(seed, args.thorough(), shards),
            }
        }
        "c11" => {
            guard::start_watchdog("c11", std::time::Duration::from_secs(120));
            match &replay_value {
                Some(v) => legs::dhcpconf::replay_c11(v),
                None => legs::dhcpconf::run_c11(seed, args.thorough(), shards),
            }
        }
        "gen-relay-cases" => {
            legs::relay::gen_cases(&args.str("prop", "C03"), seed, args.u64("n", 400), &args.str("out", "/dev/stdout"));
            return;
        }
        "judge-relay" => legs::relay::judge(&args.str("prop", "C03"), &args.str("cases", ""), &args.str("events", "")),
        "dump-corpus" => {
            legs::c05::dump_corpus(&args.str("handler", "dhcp"), seed, args.u64("n", 1000), &args.str("out", "/dev/stdout"));
            return;
        }
        "judge-frames" => legs::framejudge::judge(&args.str("events", "")),
        "judge-ra" => {
            println!("{}", legs::c17::judge_wire(&report::unhex(&args.str("hex", ""))));
            return;
        }
        "miri-subset" => legs::miri_subset::run(seed, args.u64("n", 120)),
        "consts" => {
            println!("{}", legs::dnsmisc::consts());
            return;
        }
        _ => {
            eprintln!("usage: vh <leg> --seed N --tier quick|thorough --out FILE [--replay FILE]");
            std::process::exit(2);
        }
    };
    let _ = std::fs::remove_dir_all(&scratch);
    let j = leg.to_json(seed, &tier, t0.elapsed().as_secs_f64());
    let text = serde_json::to_string_pretty(&j).unwrap();
    if out.is_empty() {
        println!("{}", text);
    } else {
        std::fs::write(&out, text).expect("write leg report");
        println!(
            "leg={} verdict={} evaluations={} distinct={} violations={:?}",
            j["leg"], j["verdict"], j["evaluations"], j["distinct_nontrivial"], j["violations_by_signature"]
        );
    }
}
