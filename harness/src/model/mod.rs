pub mod policy;
