//! Independent model of erbium.conf(5) DHCP policy semantics: which policy applies, which
//! address pool and which options a client gets.  Written from the manual, not from the code.

use crate::rng::Rng;
use std::collections::{BTreeMap, BTreeSet};
use std::net::Ipv4Addr;

#[derive(Clone, Debug, PartialEq)]
pub enum OptVal {
    IpList(Vec<u32>),
    Ip(u32),
    Str(String),
    U8(u8),
    U16(u16),
    U32(u32),
    I32(i32),
    Bool(bool),
    Secs16(u16),
    Secs32(u32),
    Domains(Vec<String>),
    Hw(Vec<u8>),
}

impl OptVal {
    pub fn bytes(&self) -> Vec<u8> {
        match self {
            OptVal::IpList(v) => v.iter().flat_map(|x| x.to_be_bytes()).collect(),
            OptVal::Ip(x) => x.to_be_bytes().to_vec(),
            OptVal::Str(s) => s.as_bytes().to_vec(),
            OptVal::U8(x) => vec![*x],
            OptVal::U16(x) | OptVal::Secs16(x) => x.to_be_bytes().to_vec(),
            OptVal::U32(x) | OptVal::Secs32(x) => x.to_be_bytes().to_vec(),
            OptVal::I32(x) => x.to_be_bytes().to_vec(),
            OptVal::Bool(b) => vec![*b as u8],
            OptVal::Domains(l) => {
                let mut o = Vec::new();
                for d in l {
                    for label in d.split('.') {
                        o.push(label.len() as u8);
                        o.extend_from_slice(label.as_bytes());
                    }
                    o.push(0);
                }
                o
            }
            OptVal::Hw(v) => v.clone(),
        }
    }
    pub fn yaml(&self) -> String {
        let ip = |x: &u32| Ipv4Addr::from(*x).to_string();
        match self {
            OptVal::IpList(v) => format!("[{}]", v.iter().map(ip).collect::<Vec<_>>().join(", ")),
            OptVal::Ip(x) => ip(x),
            OptVal::Str(s) => format!("'{}'", s),
            OptVal::U8(x) => x.to_string(),
            OptVal::U16(x) => x.to_string(),
            OptVal::U32(x) => x.to_string(),
            OptVal::I32(x) => x.to_string(),
            OptVal::Bool(b) => b.to_string(),
            OptVal::Secs16(x) => format!("{}s", x),
            OptVal::Secs32(x) => x.to_string(),
            OptVal::Domains(l) => format!("[{}]", l.iter().map(|d| format!("'{}'", d)).collect::<Vec<_>>().join(", ")),
            OptVal::Hw(v) => format!("'{}'", v.iter().map(|b| format!("{:02x}", b)).collect::<Vec<_>>().join(":")),
        }
    }
}

/// (option name in erbium.conf, code, value kind)
#[derive(Clone, Copy, Debug, PartialEq)]
pub enum Kind {
    IpList,
    Ip,
    Str,
    U8,
    U16,
    I32,
    Bool,
    Secs16,
    Secs32,
    Domains,
    Hw,
}

pub const OPTIONS: [(&str, u8, Kind); 18] = [
    ("dns-servers", 6, Kind::IpList),
    ("routers", 3, Kind::IpList),
    ("ntp-servers", 42, Kind::IpList),
    ("netmask", 1, Kind::Ip),
    ("broadcast", 28, Kind::Ip),
    ("domain-name", 15, Kind::Str),
    ("host-name", 12, Kind::Str),
    ("class-id", 60, Kind::Str),
    ("user-class", 77, Kind::Str),
    ("mtu", 26, Kind::U16),
    ("default-ttl", 23, Kind::U8),
    ("time-offset", 2, Kind::I32),
    ("forward", 19, Kind::Bool),
    ("renewal-time", 58, Kind::Secs16),
    ("arp-timeout", 35, Kind::Secs32),
    ("dns-searches", 119, Kind::Domains),
    ("captive-portal", 114, Kind::Str),
    ("client-id", 61, Kind::Hw),
];

pub fn opt_name(code: u8) -> &'static str {
    OPTIONS.iter().find(|(_, c, _)| *c == code).map(|(n, _, _)| *n).unwrap_or("?")
}

pub fn gen_val(r: &mut Rng, k: Kind) -> OptVal {
    let ip = |r: &mut Rng| u32::from(Ipv4Addr::new(10, r.below(4) as u8, r.below(4) as u8, 1 + r.below(250) as u8));
    match k {
        Kind::IpList => {
            let n = r.range(1, 3);
            OptVal::IpList((0..n).map(|_| ip(r)).collect())
        }
        Kind::Ip => OptVal::Ip(ip(r)),
        Kind::Str => {
            if r.chance(1, 5) {
                // long values: replies of 600..900 octets
                OptVal::Str(format!("{}.example", "v".repeat(r.range(120, 240) as usize)))
            } else {
                OptVal::Str(r.pick(&["alpha", "beta", "gamma.example", "x", "VPN"]).to_string())
            }
        }
        Kind::U8 => OptVal::U8(r.u8()),
        Kind::U16 => OptVal::U16(*r.pick(&[576u16, 1280, 1500, 9000, 65_535])),
        Kind::I32 => OptVal::I32(*r.pick(&[0i32, 3600, -3600, i32::MAX, i32::MIN])),
        Kind::Bool => OptVal::Bool(r.bool()),
        Kind::Secs16 => OptVal::Secs16(*r.pick(&[0u16, 90, 3600, 65_535])),
        Kind::Secs32 => OptVal::Secs32(*r.pick(&[0u32, 60, 604_800, u32::MAX])),
        Kind::Domains => {
            let n = r.range(1, 3);
            OptVal::Domains((0..n).map(|_| r.pick(&["example.com", "corp.example.org", "lan"]).to_string()).collect())
        }
        Kind::Hw => OptVal::Hw(r.bytes_of(&[1, 3, 6, 7])),
    }
}

#[derive(Clone, Debug)]
pub enum AddrSpec {
    Address(u32),
    /// inclusive
    Range(u32, u32),
    /// network, prefix length
    Subnet(u32, u8),
}

impl AddrSpec {
    /// The documented address set.
    pub fn set(&self) -> BTreeSet<u32> {
        match self {
            AddrSpec::Address(a) => [*a].into_iter().collect(),
            AddrSpec::Range(a, b) => (*a..=*b).collect(),
            AddrSpec::Subnet(n, l) => {
                // "The first and last addresses of the subnet are not applied": all hosts.
                let size = 1u64 << (32 - *l as u32);
                if size < 4 {
                    return BTreeSet::new();
                }
                (1..size - 1).map(|o| n + o as u32).collect()
            }
        }
    }
}

#[derive(Clone, Debug, Default)]
pub struct Pol {
    pub match_chaddr: Option<Vec<u8>>,
    pub match_subnet: Option<(u32, u8)>,
    /// (code, Some(value) | None = "client must not send it")
    pub match_opts: Vec<(u8, Option<OptVal>)>,
    pub addrs: Option<Vec<AddrSpec>>,
    /// (code, Some(value) | None = null/unset)
    pub apply: Vec<(u8, Option<OptVal>)>,
    pub children: Vec<Pol>,
}

impl Pol {
    pub fn has_conditions(&self) -> bool {
        self.match_chaddr.is_some() || self.match_subnet.is_some() || !self.match_opts.is_empty()
    }

    pub fn used_addresses(&self) -> BTreeSet<u32> {
        let mut s = BTreeSet::new();
        if let Some(a) = &self.addrs {
            for x in a {
                s.extend(x.set());
            }
        }
        for c in &self.children {
            s.extend(c.used_addresses());
        }
        s
    }

    /// This policy's own pool: what it lists minus everything its descendants use.
    pub fn pool(&self) -> Option<BTreeSet<u32>> {
        let a = self.addrs.as_ref()?;
        let mut s = BTreeSet::new();
        for x in a {
            s.extend(x.set());
        }
        for c in &self.children {
            for u in c.used_addresses() {
                s.remove(&u);
            }
        }
        Some(s)
    }

    pub fn yaml(&self, indent: usize, out: &mut String) {
        let pad = " ".repeat(indent);
        let mut lines: Vec<String> = Vec::new();
        if let Some(m) = &self.match_chaddr {
            lines.push(format!("match-hardware-address: '{}'", m.iter().map(|b| format!("{:02x}", b)).collect::<Vec<_>>().join(":")));
        }
        if let Some((n, l)) = &self.match_subnet {
            lines.push(format!("match-subnet: {}/{}", Ipv4Addr::from(*n), l));
        }
        for (c, v) in &self.match_opts {
            lines.push(format!("match-{}: {}", opt_name(*c), v.as_ref().map(|x| x.yaml()).unwrap_or_else(|| "null".into())));
        }
        if let Some(a) = &self.addrs {
            // YAML mappings cannot repeat a key: at most one of each kind per policy
            for x in a {
                match x {
                    AddrSpec::Address(a) => lines.push(format!("apply-address: {}", Ipv4Addr::from(*a))),
                    AddrSpec::Range(a, b) => lines.push(format!("apply-range: {{ start: {}, end: {} }}", Ipv4Addr::from(*a), Ipv4Addr::from(*b))),
                    AddrSpec::Subnet(n, l) => lines.push(format!("apply-subnet: {}/{}", Ipv4Addr::from(*n), l)),
                }
            }
        }
        for (c, v) in &self.apply {
            lines.push(format!("apply-{}: {}", opt_name(*c), v.as_ref().map(|x| x.yaml()).unwrap_or_else(|| "null".into())));
        }
        if lines.is_empty() && self.children.is_empty() {
            // a completely empty policy is still a mapping
            lines.push("policies: []".to_string());
        }
        // The keys of a YAML mapping have no order: write them rotated by an amount that depends on the policy's shape, and
        // the `policies:` key (with its block) first for some policies, last for the others.
        if lines.len() > 1 {
            let rot = (self.apply.len() * 7 + self.match_opts.len() * 3 + self.children.len()) % lines.len();
            lines.rotate_left(rot);
        }
        let children_first = !self.children.is_empty() && (self.apply.len() + self.children.len() + self.addrs.as_ref().map(|a| a.len()).unwrap_or(0)) % 2 == 0;
        let mut first = true;
        let mut emit = |txt: &str, out: &mut String| {
            if first {
                out.push_str(&format!("{}- {}\n", &pad[..indent.saturating_sub(2)], txt));
                first = false;
            } else {
                out.push_str(&format!("{}{}\n", pad, txt));
            }
        };
        if children_first {
            emit("policies:", out);
            for c in &self.children {
                c.yaml(indent + 4, out);
            }
        }
        for txt in &lines {
            emit(txt, out);
        }
        if !children_first && !self.children.is_empty() {
            emit("policies:", out);
            for c in &self.children {
                c.yaml(indent + 4, out);
            }
        }
    }
}

#[derive(Clone, Debug)]
pub struct Request {
    pub chaddr: Vec<u8>,
    pub serverip: u32,
    /// options the client sent (code -> bytes), without 53/55
    pub opts: BTreeMap<u8, Vec<u8>>,
    pub paramlist: Vec<u8>,
    pub if_mtu: Option<u32>,
    pub if_router: Option<u32>,
    /// relay agent address in the BOOTP header (0 = not relayed); the model does not look at it
    pub giaddr: u32,
}

#[derive(Clone, Copy, PartialEq, Debug)]
enum Tri {
    Fail,
    NoConds,
    Match,
}

fn conditions(p: &Pol, q: &Request) -> Tri {
    if !p.has_conditions() {
        return Tri::NoConds;
    }
    if let Some(m) = &p.match_chaddr {
        if *m != q.chaddr {
            return Tri::Fail;
        }
    }
    if let Some((n, l)) = &p.match_subnet {
        let mask = if *l == 0 { 0 } else { u32::MAX << (32 - *l as u32) };
        if q.serverip & mask != n & mask {
            return Tri::Fail;
        }
    }
    for (c, v) in &p.match_opts {
        match (v, q.opts.get(c)) {
            (None, None) => {}
            (Some(w), Some(have)) if w.bytes() == *have => {}
            _ => return Tri::Fail,
        }
    }
    Tri::Match
}

/// "A policy section that contains no matches only matches if one of its subpolicies matches."
pub fn applies(p: &Pol, q: &Request) -> bool {
    match conditions(p, q) {
        Tri::Fail => false,
        Tri::Match => true,
        Tri::NoConds => p.children.iter().any(|c| applies(c, q)),
    }
}

#[derive(Clone, Debug, Default)]
pub struct Outcome {
    pub any_policy: bool,
    pub pool: Option<BTreeSet<u32>>,
    /// code -> Some(value) (send) | None (explicitly unset)
    pub opts: BTreeMap<u8, Option<Vec<u8>>>,
}

fn apply_list(list: &[Pol], q: &Request, out: &mut Outcome) -> bool {
    for p in list {
        if applies(p, q) {
            if let Some(pool) = p.pool() {
                out.pool = Some(pool);
            }
            for (c, v) in &p.apply {
                if q.paramlist.contains(c) {
                    out.opts.insert(*c, v.as_ref().map(|x| x.bytes()));
                }
            }
            apply_list(&p.children, q, out);
            if let Some((n, l)) = &p.match_subnet {
                let mask = if *l == 0 { 0 } else { u32::MAX << (32 - *l as u32) };
                if q.paramlist.contains(&1) && !out.opts.contains_key(&1) {
                    out.opts.insert(1, Some(mask.to_be_bytes().to_vec()));
                }
                if q.paramlist.contains(&28) && !out.opts.contains_key(&28) {
                    out.opts.insert(28, Some(((n & mask) | !mask).to_be_bytes().to_vec()));
                }
            }
            return true;
        }
    }
    false
}

#[derive(Clone, Debug, Default)]
pub struct Top {
    /// None = key absent (default [$self4, $self6]); entries are literal strings
    pub dns_servers: Option<Vec<String>>,
    pub dns_search: Option<Vec<String>>,
    pub captive: Option<String>,
    /// (written address, prefix length) -- may carry host bits
    pub addresses: Vec<(u32, u8)>,
}

/// Everything the manual promises for (config, request).
pub fn model(top: &Top, policies: &[Pol], q: &Request) -> Outcome {
    let mut out = Outcome::default();
    // --- top level defaults ("apply unless overridden")
    let servers: Vec<String> = top.dns_servers.clone().unwrap_or_else(|| vec!["$self4".into(), "$self6".into()]);
    let v4: Vec<u32> = servers
        .iter()
        .filter_map(|s| if s == "$self4" { Some(q.serverip) } else { s.parse::<Ipv4Addr>().ok().map(u32::from) })
        .collect();
    if q.paramlist.contains(&6) {
        out.opts.insert(6, Some(v4.iter().flat_map(|x| x.to_be_bytes()).collect()));
    }
    if q.paramlist.contains(&119) {
        out.opts.insert(119, Some(OptVal::Domains(top.dns_search.clone().unwrap_or_default()).bytes()));
    }
    if q.paramlist.contains(&114) {
        out.opts.insert(114, top.captive.as_ref().map(|s| s.as_bytes().to_vec()));
    }
    let all_used: BTreeSet<u32> = policies.iter().flat_map(|p| p.used_addresses()).collect();
    for (a, l) in &top.addresses {
        let mask = if *l == 0 { 0 } else { u32::MAX << (32 - *l as u32) };
        if q.serverip & mask == a & mask {
            out.any_policy = true;
            let net = a & mask;
            let size = 1u64 << (32 - *l as u32);
            let mut pool: BTreeSet<u32> = if size >= 4 { (1..size - 1).map(|o| net + o as u32).collect() } else { BTreeSet::new() };
            pool.remove(&q.serverip);
            for u in &all_used {
                pool.remove(u);
            }
            out.pool = Some(pool);
            if let Some(m) = q.if_mtu {
                if q.paramlist.contains(&26) {
                    out.opts.insert(26, Some((m as u16).to_be_bytes().to_vec()));
                }
            }
            if let Some(rt) = q.if_router {
                if q.paramlist.contains(&3) {
                    out.opts.insert(3, Some(rt.to_be_bytes().to_vec()));
                }
            }
            if q.paramlist.contains(&1) {
                out.opts.insert(1, Some(mask.to_be_bytes().to_vec()));
            }
            if q.paramlist.contains(&28) {
                out.opts.insert(28, Some((net | !mask).to_be_bytes().to_vec()));
            }
            break;
        }
    }
    // the built-in default policy always "matches"
    out.any_policy = true;
    // --- configured policies override
    apply_list(policies, q, &mut out);
    out
}

// ---------------------------------------------------------------- generation

pub struct GenCtx {
    pub chaddrs: Vec<Vec<u8>>,
    /// subnets in play: (network, len)
    pub subnets: Vec<(u32, u8)>,
}

pub fn gen_pol(r: &mut Rng, ctx: &GenCtx, depth: usize, with_addrs: bool, parent_subnet: Option<(u32, u8)>) -> Pol {
    let mut p = Pol::default();
    // conditions
    let nconds = match r.below(6) {
        0 => 0,
        1..=3 => 1,
        _ => 2,
    };
    let mut my_subnet = parent_subnet;
    for _ in 0..nconds {
        match r.below(4) {
            0 if p.match_chaddr.is_none() => p.match_chaddr = Some(r.pick(&ctx.chaddrs).clone()),
            1 if p.match_subnet.is_none() => {
                let s = *r.pick(&ctx.subnets);
                p.match_subnet = Some(s);
                my_subnet = Some(s);
            }
            _ => {
                let (_, code, kind) = *r.pick(&[OPTIONS[6], OPTIONS[7], OPTIONS[8], OPTIONS[17]]);
                if !p.match_opts.iter().any(|(c, _)| *c == code) {
                    let v = if r.chance(1, 4) { None } else { Some(gen_val(r, kind)) };
                    p.match_opts.push((code, v));
                }
            }
        }
    }
    // addresses
    if with_addrs && r.chance(1, 2) {
        let (net, len) = my_subnet.unwrap_or(*r.pick(&ctx.subnets));
        let size = 1u32 << (32 - len as u32);
        let mut specs = Vec::new();
        let kinds = r.range(1, 2);
        let mut used_kinds = Vec::new();
        for _ in 0..kinds {
            let k = r.below(3);
            if used_kinds.contains(&k) {
                continue;
            }
            used_kinds.push(k);
            match k {
                0 => specs.push(AddrSpec::Address(net + 1 + r.below((size as u64).saturating_sub(2).max(1)) as u32)),
                1 => {
                    let a = net + 1 + r.below((size as u64).saturating_sub(2).max(1)) as u32;
                    let b = (a + r.below(6) as u32).min(net + size - 2).max(a);
                    specs.push(AddrSpec::Range(a, b));
                }
                _ => {
                    // a sub-subnet of the subnet in play (/27../30), or the whole of it
                    let sl = r.range((len as u64 + 1).min(30), 30) as u8;
                    let ssize = 1u32 << (32 - sl as u32);
                    let sn = net + (r.below(((size / ssize) as u64).max(1)) as u32) * ssize;
                    if r.chance(1, 4) {
                        specs.push(AddrSpec::Subnet(net, len));
                    } else {
                        specs.push(AddrSpec::Subnet(sn, sl));
                    }
                }
            }
        }
        if !specs.is_empty() {
            p.addrs = Some(specs);
        }
    }
    // applied options
    let napply = r.range(0, 4);
    for _ in 0..napply {
        let (_, code, kind) = *r.pick(&OPTIONS[..17]);
        if code == 12 || code == 60 || code == 61 {
            continue;
        }
        if !p.apply.iter().any(|(c, _)| *c == code) {
            let v = if r.chance(1, 4) { None } else { Some(gen_val(r, kind)) };
            p.apply.push((code, v));
        }
    }
    if depth < 3 && r.chance(2, 3) {
        let n = r.range(1, 3);
        for _ in 0..n {
            p.children.push(gen_pol(r, ctx, depth + 1, with_addrs, my_subnet));
        }
    }
    p
}
