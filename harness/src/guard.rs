//! Panic observer and non-termination watchdog around calls into erbium.

use std::cell::RefCell;
use std::panic::{AssertUnwindSafe, catch_unwind};
use std::sync::Mutex;
use std::sync::atomic::{AtomicU64, Ordering};
use std::time::{Duration, Instant};

#[derive(Clone, Debug)]
pub struct Panicked {
    pub message: String,
    pub location: String,
}

impl Panicked {
    /// Signature component: file:line with the /repo prefix stripped, plus a normalised message
    /// class (digits removed) so that one defect reached by many inputs has one signature.
    pub fn site(&self) -> String {
        let loc = self
            .location
            .rsplit_once("crates/")
            .map(|(_, r)| r.to_string())
            .unwrap_or_else(|| self.location.clone());
        loc
    }
    pub fn class(&self) -> String {
        let mut m: String = self
            .message
            .chars()
            .map(|c| if c.is_ascii_digit() { '#' } else { c })
            .collect();
        while m.contains("##") {
            m = m.replace("##", "#");
        }
        m.truncate(60);
        m
    }
}

thread_local! {
    static LAST: RefCell<Option<Panicked>> = const { RefCell::new(None) };
    static SLOT: RefCell<Option<usize>> = const { RefCell::new(None) };
    static DEPTH: std::cell::Cell<u32> = const { std::cell::Cell::new(0) };
}

pub fn install() {
    std::panic::set_hook(Box::new(|info| {
        let message = if let Some(s) = info.payload().downcast_ref::<&str>() {
            s.to_string()
        } else if let Some(s) = info.payload().downcast_ref::<String>() {
            s.clone()
        } else {
            "<non-string panic payload>".to_string()
        };
        let location = info
            .location()
            .map(|l| format!("{}:{}", l.file(), l.line()))
            .unwrap_or_else(|| "<unknown>".into());
        if DEPTH.with(|d| d.get()) == 0 {
            // a panic outside any guard is a harness bug: make it visible
            eprintln!("HARNESS PANIC: {} at {}", message, location);
        }
        LAST.with(|l| *l.borrow_mut() = Some(Panicked { message, location }));
    }));
}

/// Run `f`; Err(Panicked) if it panicked (including overflow and bounds checks).
pub fn guard<T>(f: impl FnOnce() -> T) -> Result<T, Panicked> {
    LAST.with(|l| *l.borrow_mut() = None);
    DEPTH.with(|d| d.set(d.get() + 1));
    let r = catch_unwind(AssertUnwindSafe(f));
    DEPTH.with(|d| d.set(d.get().saturating_sub(1)));
    match r {
        Ok(v) => Ok(v),
        Err(_) => Err(LAST.with(|l| l.borrow_mut().take()).unwrap_or(Panicked {
            message: "<panic without hook record>".into(),
            location: "<unknown>".into(),
        })),
    }
}

// ---- watchdog -------------------------------------------------------------------------------

const NSLOTS: usize = 64;
static STARTS: [AtomicU64; NSLOTS] = [const { AtomicU64::new(0) }; NSLOTS];
static DESCR: [Mutex<Vec<u8>>; NSLOTS] = [const { Mutex::new(Vec::new()) }; NSLOTS];
static EPOCH: Mutex<Option<Instant>> = Mutex::new(None);
static NEXT_SLOT: AtomicU64 = AtomicU64::new(0);

fn now_ms() -> u64 {
    let e = EPOCH.lock().unwrap();
    e.map(|e| e.elapsed().as_millis() as u64 + 1).unwrap_or(1)
}

/// Start the watchdog thread.  If any guarded call exceeds `limit`, a line
/// `HANG {"leg":..., "input":...}` is printed and the process exits with status 3.
pub fn start_watchdog(leg: &'static str, limit: Duration) {
    *EPOCH.lock().unwrap() = Some(Instant::now());
    std::thread::spawn(move || {
        loop {
            std::thread::sleep(Duration::from_millis(500));
            let now = now_ms();
            for (i, s) in STARTS.iter().enumerate() {
                let st = s.load(Ordering::Relaxed);
                if st != 0 && now.saturating_sub(st) > limit.as_millis() as u64 {
                    let d = crate::report::hex(&DESCR[i].lock().unwrap());
                    println!(
                        "HANG {}",
                        serde_json::json!({"leg": leg, "input_hex": d, "limit_s": limit.as_secs()})
                    );
                    std::process::exit(3);
                }
            }
        }
    });
}

fn my_slot() -> usize {
    SLOT.with(|s| {
        let mut s = s.borrow_mut();
        if s.is_none() {
            *s = Some((NEXT_SLOT.fetch_add(1, Ordering::Relaxed) as usize) % NSLOTS);
        }
        s.unwrap()
    })
}

/// Guard with the watchdog armed; `input` is what gets reported if the call never returns.
pub fn timed<T>(input: &[u8], f: impl FnOnce() -> T) -> Result<T, Panicked> {
    let slot = my_slot();
    if let Ok(mut d) = DESCR[slot].lock() {
        d.clear();
        d.extend_from_slice(input);
    }
    STARTS[slot].store(now_ms(), Ordering::Relaxed);
    let r = guard(f);
    STARTS[slot].store(0, Ordering::Relaxed);
    r
}
