//! Seeded PRNG (xoshiro256** seeded through splitmix64).  VERIF_SEED is the only entropy.

#[derive(Clone)]
pub struct Rng {
    s: [u64; 4],
}

fn splitmix(x: &mut u64) -> u64 {
    *x = x.wrapping_add(0x9E37_79B9_7F4A_7C15);
    let mut z = *x;
    z = (z ^ (z >> 30)).wrapping_mul(0xBF58_476D_1CE4_E5B9);
    z = (z ^ (z >> 27)).wrapping_mul(0x94D0_49BB_1331_11EB);
    z ^ (z >> 31)
}

impl Rng {
    pub fn new(seed: u64) -> Self {
        let mut x = seed ^ 0x5EED_5EED_5EED_5EED;
        let s = [
            splitmix(&mut x),
            splitmix(&mut x),
            splitmix(&mut x),
            splitmix(&mut x),
        ];
        Rng { s }
    }

    /// Independent stream for (seed, a, b): used for shards and cases so that any case can be
    /// regenerated from its coordinates alone.
    pub fn derive(seed: u64, a: u64, b: u64) -> Self {
        let mut x = seed;
        let mut y = splitmix(&mut x) ^ a.wrapping_mul(0xA24B_AED4_963E_E407);
        let z = splitmix(&mut y) ^ b.wrapping_mul(0x9FB2_1C65_1E98_DF25);
        Rng::new(z)
    }

    pub fn next(&mut self) -> u64 {
        let r = self.s[1].wrapping_mul(5).rotate_left(7).wrapping_mul(9);
        let t = self.s[1] << 17;
        self.s[2] ^= self.s[0];
        self.s[3] ^= self.s[1];
        self.s[1] ^= self.s[2];
        self.s[0] ^= self.s[3];
        self.s[2] ^= t;
        self.s[3] = self.s[3].rotate_left(45);
        r
    }

    /// Uniform in 0..n (n > 0).
    pub fn below(&mut self, n: u64) -> u64 {
        debug_assert!(n > 0);
        ((self.next() as u128 * n as u128) >> 64) as u64
    }

    pub fn range(&mut self, lo: u64, hi_incl: u64) -> u64 {
        lo + self.below(hi_incl - lo + 1)
    }

    pub fn usize(&mut self, n: usize) -> usize {
        self.below(n as u64) as usize
    }

    pub fn chance(&mut self, num: u64, den: u64) -> bool {
        self.below(den) < num
    }

    pub fn bool(&mut self) -> bool {
        self.next() & 1 == 1
    }

    pub fn u8(&mut self) -> u8 {
        self.next() as u8
    }
    pub fn u16(&mut self) -> u16 {
        self.next() as u16
    }
    pub fn u32(&mut self) -> u32 {
        self.next() as u32
    }

    pub fn pick<'a, T>(&mut self, v: &'a [T]) -> &'a T {
        &v[self.usize(v.len())]
    }

    pub fn bytes(&mut self, n: usize) -> Vec<u8> {
        (0..n).map(|_| self.u8()).collect()
    }

    /// `n` random octets with n uniform in lo..=hi.
    pub fn bytes_in(&mut self, lo: usize, hi: usize) -> Vec<u8> {
        let n = self.range(lo as u64, hi as u64) as usize;
        self.bytes(n)
    }

    /// `n` random octets with n picked from `lens`.
    pub fn bytes_of(&mut self, lens: &[usize]) -> Vec<u8> {
        let n = *self.pick(lens);
        self.bytes(n)
    }

    pub fn shuffle<T>(&mut self, v: &mut [T]) {
        for i in (1..v.len()).rev() {
            let j = self.usize(i + 1);
            v.swap(i, j);
        }
    }

    /// A u32 biased towards boundary values.
    pub fn u32_edgy(&mut self) -> u32 {
        match self.below(10) {
            0 => 0,
            1 => 1,
            2 => u32::MAX,
            3 => u32::MAX - 1,
            4 => 1 << self.below(32),
            5 => (1u32 << self.below(32)).wrapping_sub(1),
            6 => self.below(10) as u32,
            7 => self.below(100_000) as u32,
            _ => self.u32(),
        }
    }

    /// Size-biased length in 0..=max (most small, some huge).
    pub fn len_biased(&mut self, max: usize) -> usize {
        if max == 0 {
            return 0;
        }
        match self.below(10) {
            0..=3 => self.usize(max.min(16) + 1),
            4..=6 => self.usize(max.min(300) + 1),
            7..=8 => self.usize(max.min(2000) + 1),
            _ => self.usize(max + 1),
        }
    }
}
