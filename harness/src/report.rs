//! Leg reports: what one in-process leg observed, merged across shards and written as JSON for
//! the `check` driver (which owns known-findings matching, replay files and evidence).

use serde_json::{Map, Value, json};
use std::collections::{BTreeMap, BTreeSet};

#[derive(Clone, Debug)]
pub struct Violation {
    pub signature: String,
    pub detail: String,
    pub replay: Value,
}

#[derive(Default)]
pub struct Leg {
    pub name: String,
    pub property: String,
    pub rule: String,
    pub evaluations: u64,
    pub distinct: BTreeSet<String>,
    pub samples: Vec<Value>,
    pub counters: BTreeMap<String, u64>,
    pub violations: Vec<Violation>,
    pub viol_by_sig: BTreeMap<String, u64>,
    pub inconclusive: Vec<String>,
    pub floor: u64,
    max_samples: usize,
    max_viol_per_sig: usize,
}

impl Leg {
    pub fn new(name: &str, property: &str, rule: &str) -> Self {
        Leg {
            name: name.into(),
            property: property.into(),
            rule: rule.into(),
            max_samples: 6,
            max_viol_per_sig: 2,
            floor: 1,
            ..Default::default()
        }
    }

    pub fn child(&self) -> Self {
        Leg::new(&self.name, &self.property, &self.rule)
    }

    pub fn eval(&mut self) {
        self.evaluations += 1;
    }
    pub fn evals(&mut self, n: u64) {
        self.evaluations += n;
    }

    /// Record a distinct non-trivial case class.
    pub fn class(&mut self, key: impl Into<String>) {
        // Bound memory: classes are short strings; cap the set at 200k entries.
        if self.distinct.len() < 200_000 {
            self.distinct.insert(key.into());
        }
    }

    pub fn count(&mut self, name: &str, n: u64) {
        *self.counters.entry(name.into()).or_insert(0) += n;
    }
    pub fn max(&mut self, name: &str, n: u64) {
        let e = self.counters.entry(name.into()).or_insert(0);
        if n > *e {
            *e = n;
        }
    }

    pub fn sample(&mut self, v: Value) {
        if self.samples.len() < self.max_samples {
            self.samples.push(v);
        }
    }
    pub fn wants_sample(&self) -> bool {
        self.samples.len() < self.max_samples
    }

    pub fn violation(&mut self, signature: impl Into<String>, detail: impl Into<String>, replay: Value) {
        let signature = signature.into();
        let n = self.viol_by_sig.entry(signature.clone()).or_insert(0);
        *n += 1;
        if (*n as usize) <= self.max_viol_per_sig {
            self.violations.push(Violation {
                signature,
                detail: detail.into(),
                replay,
            });
        }
    }

    pub fn inconclusive(&mut self, why: impl Into<String>) {
        if self.inconclusive.len() < 20 {
            self.inconclusive.push(why.into());
        }
    }

    pub fn merge(&mut self, other: Leg) {
        self.evaluations += other.evaluations;
        for k in other.distinct {
            if self.distinct.len() < 200_000 {
                self.distinct.insert(k);
            }
        }
        for s in other.samples {
            self.sample(s);
        }
        for (k, v) in other.counters {
            if k.starts_with("max_") {
                self.max(&k, v);
            } else {
                self.count(&k, v);
            }
        }
        for (sig, n) in other.viol_by_sig {
            *self.viol_by_sig.entry(sig).or_insert(0) += n;
        }
        for v in other.violations {
            let have = self
                .violations
                .iter()
                .filter(|x| x.signature == v.signature)
                .count();
            if have < self.max_viol_per_sig {
                self.violations.push(v);
            }
        }
        for i in other.inconclusive {
            self.inconclusive(i);
        }
    }

    pub fn to_json(&self, seed: u64, tier: &str, wall_s: f64) -> Value {
        let verdict = if !self.viol_by_sig.is_empty() {
            "violated"
        } else if !self.inconclusive.is_empty() || self.evaluations < self.floor {
            "inconclusive"
        } else {
            "held"
        };
        let mut counters = Map::new();
        for (k, v) in &self.counters {
            counters.insert(k.clone(), json!(v));
        }
        let mut by_sig = Map::new();
        for (k, v) in &self.viol_by_sig {
            by_sig.insert(k.clone(), json!(v));
        }
        json!({
            "leg": self.name,
            "property": self.property,
            "seed": seed,
            "tier": tier,
            "verdict": verdict,
            "evaluations": self.evaluations,
            "distinct_nontrivial": self.distinct.len(),
            "rule": self.rule,
            "samples": self.samples,
            "counters": counters,
            "violations": self.violations.iter().map(|v| json!({
                "signature": v.signature, "detail": v.detail, "replay": v.replay
            })).collect::<Vec<_>>(),
            "violations_by_signature": by_sig,
            "inconclusive": self.inconclusive,
            "floor": self.floor,
            "wall_s": wall_s,
        })
    }
}

pub fn hex(b: &[u8]) -> String {
    let mut s = String::with_capacity(b.len() * 2);
    for x in b {
        s.push_str(&format!("{:02x}", x));
    }
    s
}

pub fn unhex(s: &str) -> Vec<u8> {
    let s = s.trim();
    (0..s.len() / 2)
        .map(|i| u8::from_str_radix(&s[2 * i..2 * i + 2], 16).unwrap_or(0))
        .collect()
}
