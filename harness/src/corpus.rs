//! Valid seed packets (built with the reference encoders) and grammar-built hostile packets for
//! every network-facing decoder.

use crate::refcodec::dhcp as rd;
use crate::refcodec::dns as rn;
use crate::rng::Rng;
use std::net::Ipv4Addr;

// ---------------------------------------------------------------- DHCP

pub fn dhcp_seeds() -> Vec<Vec<u8>> {
    let mut v = Vec::new();
    let mut m = rd::Msg {
        xid: 0x1234_5678,
        flags: 0x8000,
        ..Default::default()
    };
    m.options = vec![
        (53, vec![1]),
        (61, vec![1, 0, 0, 0x5e, 0, 0x53, 0]),
        (50, vec![192, 168, 0, 50]),
        (12, b"laptop".to_vec()),
        (60, b"MSFT 5.0".to_vec()),
        (57, vec![0x05, 0xdc]),
        (55, vec![1, 3, 6, 15, 26, 28, 51, 58, 59, 119, 121, 114, 42]),
    ];
    v.push(rd::encode(&m));
    let mut q = m.clone();
    q.options = vec![
        (53, vec![3]),
        (54, vec![192, 168, 0, 1]),
        (50, vec![192, 168, 0, 50]),
        (51, vec![0, 0, 0x0e, 0x10]),
        (81, vec![0, 0, 0, b'h', b'.', b'e']),
        (119, vec![7, b'e', b'x', b'a', b'm', b'p', b'l', b'e', 3, b'c', b'o', b'm', 0, 3, b'n', b'e', b't', 0]),
        (121, vec![24, 192, 0, 2, 0, 192, 0, 2, 254, 8, 10, 0, 0, 0, 10, 0, 0, 1]),
        (33, vec![10, 0, 0, 0, 10, 0, 0, 1]),
        (43, vec![1, 2, 3, 4]),
        (77, b"class".to_vec()),
        (55, vec![1, 2, 3, 6, 12, 15, 28, 42, 51, 54, 58, 59, 119, 121]),
    ];
    q.ciaddr = Ipv4Addr::new(192, 168, 0, 50);
    q.giaddr = Ipv4Addr::new(192, 168, 0, 254);
    q.sname = b"server".to_vec();
    q.file = b"pxelinux.0".to_vec();
    v.push(rd::encode(&q));
    // renewing REQUEST: no options beyond the type, broadcast bit clear
    let mut r = rd::Msg {
        xid: 7,
        ciaddr: Ipv4Addr::new(192, 168, 0, 77),
        ..Default::default()
    };
    r.options = vec![(53, vec![3]), (55, vec![1, 3, 6])];
    v.push(rd::encode(&r));
    // INFORM / RELEASE / DECLINE
    for t in [8u8, 7, 4] {
        let mut x = r.clone();
        x.options = vec![(53, vec![t]), (54, vec![192, 168, 0, 1]), (50, vec![192, 168, 0, 9])];
        v.push(rd::encode(&x));
    }
    // long option (RFC 3396 split) and hlen 16
    let mut l = m.clone();
    l.hlen = 16;
    l.chaddr = (0..16).collect();
    l.options.push((43, vec![0xab; 600]));
    v.push(rd::encode(&l));
    v
}

pub fn dhcp_hostile(r: &mut Rng) -> (Vec<u8>, String) {
    let mut m = rd::Msg {
        xid: r.u32(),
        flags: r.u16(),
        ..Default::default()
    };
    let kind = r.below(10);
    let desc;
    match kind {
        0 => {
            // every hlen value, chaddr field arbitrary
            m.options = vec![(53, vec![*r.pick(&[1u8, 3])]), (55, vec![1, 3, 6, 51])];
            let mut b = rd::encode(&m);
            b[2] = r.u8();
            for i in 28..44 {
                b[i] = r.u8();
            }
            return (b.clone(), format!("hlen={}", b[2]));
        }
        1 => {
            // many repeated options incl. zero length
            let n = r.range(1, 60);
            m.options = vec![(53, vec![*r.pick(&[1u8, 3])])];
            let mut b = rd::encode(&m);
            b.pop();
            for _ in 0..n {
                let c = *r.pick(&[12u8, 50, 51, 53, 54, 55, 61, 119, 121, 81, 82, 0, 255, 1]);
                let l = *r.pick(&[0usize, 1, 3, 4, 5, 8, 9, 255]);
                b.push(c);
                if c != 0 && c != 255 {
                    b.push(l as u8);
                    b.extend(r.bytes(l));
                }
            }
            b.push(255);
            desc = format!("repeated-options x{}", n);
            return (b, desc);
        }
        2 => {
            // typed options with wrong lengths
            let mut opts = vec![(53u8, vec![*r.pick(&[1u8, 3])])];
            for c in [50u8, 54, 51, 57, 61, 55, 1, 3, 6, 28, 26, 2, 19, 58, 119, 121, 33] {
                if r.bool() {
                    let l = *r.pick(&[0usize, 1, 2, 3, 4, 5, 7, 8, 9, 16, 255, 300]);
                    opts.push((c, r.bytes(l)));
                }
            }
            m.options = opts;
            desc = "typed-options-wrong-length".to_string();
        }
        3 => {
            // message type option of every value / wrong length
            let l = *r.pick(&[0usize, 1, 1, 1, 2, 4]);
            m.options = vec![(53, r.bytes(l)), (55, vec![1, 3, 6])];
            desc = format!("msgtype-len-{}", l);
        }
        4 => {
            // domain search / routes with pathological encodings
            let mut ds = Vec::new();
            for _ in 0..r.range(1, 12) {
                let l = *r.pick(&[0u8, 1, 63, 64, 0xc0, 0xff, 5]);
                ds.push(l);
                ds.extend(r.bytes((l & 0x3f) as usize / 2));
            }
            let mut routes = Vec::new();
            for _ in 0..r.range(1, 6) {
                routes.push(*r.pick(&[0u8, 1, 8, 24, 32, 33, 64, 255]));
                routes.extend(r.bytes_in(0, 8));
            }
            m.options = vec![(53, vec![1]), (119, ds), (121, routes), (55, vec![119, 121, 1, 3])];
            desc = "domain-search-and-routes".to_string();
        }
        5 => {
            // sname / file full of non-NUL, option overload
            m.sname = r.bytes(64).into_iter().map(|b| b | 1).collect();
            m.file = r.bytes(128).into_iter().map(|b| b | 1).collect();
            m.options = vec![(53, vec![3]), (52, vec![r.u8() & 3]), (55, vec![1, 3, 6, 66, 67])];
            desc = "sname-file-overload".to_string();
        }
        6 => {
            // parameter request list asking for everything, 255 entries
            m.options = vec![(53, vec![1]), (55, (1..=254u8).collect()), (12, r.bytes(255))];
            desc = "paramlist-everything".to_string();
        }
        7 => {
            // client id of every length incl. 0 and 255+ (split)
            let l = *r.pick(&[0usize, 1, 2, 7, 16, 255, 256, 700]);
            m.options = vec![(53, vec![1]), (61, r.bytes(l)), (55, vec![1, 3, 6])];
            desc = format!("clientid-len-{}", l);
        }
        8 => {
            // options field without end marker / padding only
            m.options = vec![(53, vec![1])];
            let mut b = rd::encode(&m);
            b.pop();
            let pad = r.range(0, 40) as usize;
            b.extend(std::iter::repeat_n(0u8, pad));
            return (b, "no-end-marker".into());
        }
        _ => {
            // hostile addresses: requested = broadcast / network / zero / class E
            let a = *r.pick(&[
                [0u8, 0, 0, 0],
                [255, 255, 255, 255],
                [192, 168, 0, 0],
                [192, 168, 0, 255],
                [192, 168, 0, 1],
                [240, 0, 0, 1],
                [127, 0, 0, 1],
            ]);
            m.ciaddr = Ipv4Addr::new(a[0], a[1], a[2], a[3]);
            m.options = vec![(53, vec![3]), (50, a.to_vec()), (54, a.to_vec()), (55, vec![1, 3, 6, 51])];
            desc = "hostile-addresses".to_string();
        }
    }
    (rd::encode(&m), desc)
}

// ---------------------------------------------------------------- DNS

pub fn dns_query(id: u16, name: &str, qtype: u16, opt: Option<rn::Opt>) -> rn::Msg {
    rn::Msg {
        id,
        flags: 0x0100,
        questions: vec![rn::Question {
            name: rn::name_from_str(name),
            qtype,
            qclass: 1,
        }],
        opt,
        ..Default::default()
    }
}

pub fn dns_seeds() -> Vec<Vec<u8>> {
    let mut v = Vec::new();
    v.push(rn::encode(&dns_query(1, "www.example.com", 1, None), rn::Compress::None));
    let opt = rn::Opt {
        udp_size: 1232,
        flags: 0x8000,
        options: vec![
            (10, vec![1, 2, 3, 4, 5, 6, 7, 8]),
            (3, vec![]),
            (8, vec![0, 1, 24, 0, 192, 0, 2]),
            (12, vec![0; 10]),
        ],
        ..Default::default()
    };
    v.push(rn::encode(&dns_query(2, "a.b.example.org", 28, Some(opt.clone())), rn::Compress::None));
    let mut o2 = opt.clone();
    o2.options = vec![(10, (0..40).collect()), (15, vec![0, 18, b'n', b'o'])];
    v.push(rn::encode(&dns_query(3, "example.net", 15, Some(o2)), rn::Compress::None));
    // a reply with every record layout, compressed
    let mut r = Rng::new(99);
    let names = vec![
        rn::name_from_str("example.com"),
        rn::name_from_str("www.example.com"),
        rn::name_from_str("mail.example.com"),
        rn::name_from_str("ns1.dns.example.com"),
        vec![],
    ];
    let mut m = dns_query(4, "www.example.com", 255, Some(rn::Opt {
        udp_size: 4096,
        options: vec![(15, vec![0, 3, b'o', b'l', b'd']), (10, (0..24).collect())],
        ..Default::default()
    }));
    m.flags = 0x8180;
    for (i, t) in rn::NAME_TYPES.iter().enumerate() {
        let rr = rn::Rr {
            name: names[i % 4].clone(),
            rtype: *t,
            class: 1,
            ttl: 300 + i as u32,
            rdata: rn::gen_rdata(&mut r, *t, &names, 40),
        };
        match i % 3 {
            0 => m.answer.push(rr),
            1 => m.authority.push(rr),
            _ => m.additional.push(rr),
        }
    }
    m.answer.push(rn::Rr {
        name: names[1].clone(),
        rtype: 1,
        class: 1,
        ttl: 60,
        rdata: vec![192, 0, 2, 1],
    });
    m.additional.push(rn::Rr {
        name: names[2].clone(),
        rtype: 16,
        class: 1,
        ttl: 60,
        rdata: vec![3, b'a', b'b', b'c'],
    });
    v.push(rn::encode(&m, rn::Compress::Full));
    v.push(rn::encode(&m, rn::Compress::None));
    // truncated reply
    let mut t = m.clone();
    t.flags |= 0x0200;
    v.push(rn::encode(&t, rn::Compress::Full));
    v
}

/// Grammar-built hostile DNS messages.
pub fn dns_hostile(r: &mut Rng) -> (Vec<u8>, String) {
    let kind = r.below(12);
    let mut b: Vec<u8> = Vec::new();
    let hdr = |id: u16, flags: u16, qd: u16, an: u16, ns: u16, ar: u16| -> Vec<u8> {
        let mut h = Vec::new();
        for x in [id, flags, qd, an, ns, ar] {
            h.extend_from_slice(&x.to_be_bytes());
        }
        h
    };
    match kind {
        0 => {
            // pointer loops and chains in the question name
            b = hdr(r.u16(), 0x0100, 1, 0, 0, 0);
            let variant = r.below(6);
            if variant == 5 {
                // a staircase of label-less BACKWARD pointers: the question is the root name at offset 12, every following record's
                // owner name is just a pointer to the owner name of the record before it (record k needs k hops to expand)
                let n = *r.pick(&[10usize, 126, 127, 128, 129, 1_000, 5_400, 0, 0]);
                if n == 0 {
                    // the same, packed: the pointers sit two octets apart inside the (opaque) data of a TXT record, the owner
                    // name of the next record points at the last of them -- up to 8 000 hops below offset 16 384
                    let hops = *r.pick(&[200usize, 2_000, 8_000]);
                    b = hdr(r.u16(), 0x8100, 1, 2, 0, 0);
                    b.extend_from_slice(&[0, 0, 1, 0, 1]);
                    b.extend_from_slice(&[0, 0, 16, 0, 1, 0, 0, 0, 60]);
                    b.extend_from_slice(&((2 * hops) as u16).to_be_bytes());
                    let mut prev = 12usize;
                    for _ in 0..hops {
                        let here = b.len();
                        b.push(0xc0 | (prev >> 8) as u8);
                        b.push(prev as u8);
                        prev = here;
                    }
                    b.push(0xc0 | (prev >> 8) as u8);
                    b.push(prev as u8);
                    b.extend_from_slice(&[0, 1, 0, 1, 0, 0, 0, 60, 0, 4, 10, 0, 0, 1]);
                    return (b, format!("packed-backward-pointer-chain-{}", hops));
                }
                b = hdr(r.u16(), 0x8100, 1, n as u16, 0, 0);
                b.extend_from_slice(&[0, 0, 1, 0, 1]);
                let mut prev = 12usize;
                for _ in 0..n {
                    let here = b.len();
                    b.push(0xc0 | (prev >> 8) as u8);
                    b.push(prev as u8);
                    b.extend_from_slice(&[0, 1, 0, 1, 0, 0, 0, 60, 0, 0]);
                    prev = here;
                    if prev >= 0x3fff {
                        break;
                    }
                }
                return (b, format!("backward-pointer-staircase-{}", n));
            }
            match variant {
                0 => b.extend_from_slice(&[0xc0, 12]),             // self loop
                1 => b.extend_from_slice(&[0xc0, 14, 0xc0, 12]),   // two-step loop
                2 => {
                    // chain of n forward pointers ending in root
                    let n = r.range(1, 40) as usize;
                    for i in 0..n {
                        let t = 12 + 2 * (i + 1);
                        b.push(0xc0 | (t >> 8) as u8);
                        b.push(t as u8);
                    }
                    b.push(0);
                }
                3 => b.extend_from_slice(&[1, b'a', 0xc0, 12]),    // label then pointer to itself
                _ => {
                    let t = r.u16() & 0x3fff;
                    b.push(0xc0 | (t >> 8) as u8);
                    b.push(t as u8);
                }
            }
            b.extend_from_slice(&[0, 1, 0, 1]);
            return (b, format!("question-pointer-variant-{}", variant));
        }
        1 => {
            // EDNS options of every short length (cookie, EDE, NSID, unknown)
            let code = *r.pick(&[10u16, 15, 3, 8, 12, 65001]);
            let l = *r.pick(&[0usize, 1, 2, 3, 7, 8, 9, 15, 16, 39, 40, 41, 100]);
            let opt = rn::Opt {
                udp_size: *r.pick(&[0u16, 100, 512, 1232, 4096, 65535]),
                ext_rcode: if r.chance(1, 4) { r.u8() } else { 0 },
                version: if r.chance(1, 6) { r.u8() } else { 0 },
                flags: if r.bool() { 0x8000 } else { r.u16() },
                options: vec![(code, r.bytes(l))],
            };
            let mut m = dns_query(r.u16(), "edns.example.com", 1, Some(opt));
            if r.bool() {
                m.flags = 0x8180 | (r.u16() & 0xf); // as an upstream reply
                m.answer.push(rn::Rr {
                    name: rn::name_from_str("edns.example.com"),
                    rtype: 1,
                    class: 1,
                    ttl: 5,
                    rdata: vec![1, 2, 3, 4],
                });
            }
            return (rn::encode(&m, rn::Compress::Full), format!("edns-opt-{}-len-{}", code, l));
        }
        2 => {
            // OPT record with option length field lying
            let m = dns_query(r.u16(), "x.example", 1, None);
            b = rn::encode(&m, rn::Compress::None);
            b[11] = 1;
            b.push(0);
            b.extend_from_slice(&[0, 41, 0x10, 0, 0, 0, 0, 0]);
            let claimed = *r.pick(&[0u16, 1, 3, 4, 5, 8, 100, 0xffff]);
            let actual = r.range(0, 12) as usize;
            b.extend_from_slice(&claimed.to_be_bytes());
            let mut body = Vec::new();
            body.extend_from_slice(&r.pick(&[10u16, 15, 3]).to_be_bytes());
            body.extend_from_slice(&r.pick(&[0u16, 1, 8, 0xffff]).to_be_bytes());
            body.extend(r.bytes(actual));
            b.extend(body);
            return (b, "opt-lengths-lie".into());
        }
        3 => {
            // counts that lie
            let m = dns_query(r.u16(), "counts.example", 1, None);
            b = rn::encode(&m, rn::Compress::None);
            let which = 4 + 2 * r.usize(4);
            let val = *r.pick(&[0u16, 1, 2, 255, 0xffff]);
            b[which] = (val >> 8) as u8;
            b[which + 1] = val as u8;
            if r.bool() {
                b[2] |= 0x02; // TC
            }
            return (b, format!("count@{}={}", which, val));
        }
        4 => {
            // records whose rdlength disagrees with a typed rdata
            let mut r2 = r.clone();
            let names = rn::gen_name_pool(&mut r2, 4, false);
            let t = *r.pick(&rn::NAME_TYPES);
            let mut m = dns_query(r.u16(), "rd.example", t, None);
            m.flags = 0x8180;
            m.answer.push(rn::Rr {
                name: rn::name_from_str("rd.example"),
                rtype: t,
                class: 1,
                ttl: 10,
                rdata: rn::gen_rdata(r, t, &names, 10),
            });
            b = rn::encode(&m, rn::Compress::None);
            // locate rdlength: last record's rdata length = len - ... simplest: scan from end
            let rdlen = m.answer[0].rdata.len();
            let pos = b.len() - rdlen - 2;
            let val = *r.pick(&[0u16, 1, 2, rdlen as u16 - 1, rdlen as u16 + 1, 0xffff]);
            b[pos] = (val >> 8) as u8;
            b[pos + 1] = val as u8;
            if r.bool() {
                b.truncate(b.len() - r.usize(rdlen + 1));
            }
            return (b, format!("rdlength-lies-type-{}", t));
        }
        5 => {
            // OPT in the wrong section / several OPTs / OPT with non-root owner
            let mut m = dns_query(r.u16(), "opt.example", 1, None);
            m.flags = 0x8180;
            let o = rn::opt_rr(&rn::Opt {
                udp_size: 4096,
                options: vec![(10, r.bytes(8)), (15, r.bytes_in(0, 4))],
                ..Default::default()
            });
            let variant = r.below(4);
            match variant {
                0 => m.answer.push(o),
                1 => m.authority.push(o),
                2 => {
                    m.additional.push(o.clone());
                    m.additional.push(o);
                }
                _ => {
                    let mut o = o;
                    o.name = rn::name_from_str("not.root");
                    m.additional.push(o);
                }
            }
            // these are raw Rr with type 41 in `additional`, the encoder writes them verbatim
            return (rn::encode(&m, rn::Compress::None), format!("opt-misplaced-{}", variant));
        }
        6 => {
            // label lengths 64..191 (reserved types), 63, 0 in the middle
            b = hdr(r.u16(), 0x0100, 1, 0, 0, 0);
            let l = *r.pick(&[0x40u8, 0x41, 0x7f, 0x80, 0xbf, 63]);
            b.push(l);
            b.extend(r.bytes((l & 0x3f) as usize));
            b.push(0);
            b.extend_from_slice(&[0, 1, 0, 1]);
            return (b, format!("label-type-{:#x}", l));
        }
        7 => {
            // very long name through compression (beyond 255 octets)
            let mut m = dns_query(r.u16(), "long.example", 5, None);
            m.flags = 0x8180;
            let mut names: Vec<rn::Name> = vec![rn::name_from_str("long.example")];
            for i in 0..r.range(2, 30) {
                let mut n = names.last().unwrap().clone();
                n.insert(0, vec![b'a' + (i % 26) as u8; 60]);
                names.push(n);
            }
            b = rn::encode(&m, rn::Compress::None);
            // hand-build CNAME records each pointing at the previous owner name with a 60 octet label in front
            let mut an = 0u16;
            let mut prev = 12usize;
            for _ in 0..names.len() - 1 {
                let owner = b.len();
                b.push(60);
                b.extend(std::iter::repeat_n(b'x', 60));
                b.push(0xc0 | (prev >> 8) as u8);
                b.push(prev as u8);
                b.extend_from_slice(&[0, 5, 0, 1, 0, 0, 0, 9, 0, 2]);
                b.push(0xc0 | (owner >> 8) as u8);
                b.push(owner as u8);
                prev = owner;
                an += 1;
            }
            b[6] = (an >> 8) as u8;
            b[7] = an as u8;
            return (b, format!("name-longer-than-255-via-pointers x{}", an));
        }
        8 => {
            // qdcount 0 / 2, opcode / rcode everything
            let mut m = dns_query(r.u16(), "q.example", 1, None);
            m.flags = r.u16();
            if r.bool() {
                m.questions.push(m.questions[0].clone());
            } else if r.bool() {
                m.questions.clear();
            }
            return (rn::encode(&m, rn::Compress::None), "header-anything".into());
        }
        9 => {
            // NAPTR with string lengths lying
            let mut m = dns_query(r.u16(), "n.example", 35, None);
            m.flags = 0x8180;
            let mut rdata = vec![0, 1, 0, 2];
            for _ in 0..3 {
                rdata.push(*r.pick(&[0u8, 1, 200, 255]));
                rdata.extend(r.bytes_in(0, 6));
            }
            rdata.push(0);
            m.answer.push(rn::Rr {
                name: rn::name_from_str("n.example"),
                rtype: 35,
                class: 1,
                ttl: 1,
                rdata,
            });
            return (rn::encode(&m, rn::Compress::None), "naptr-strings-lie".into());
        }
        10 => {
            // SOA / MX etc. cut short inside the fixed fields
            let t = *r.pick(&[6u16, 15, 18, 21, 17]);
            let mut m = dns_query(r.u16(), "s.example", t, None);
            m.flags = 0x8180;
            let l = r.range(0, 12) as usize;
            m.answer.push(rn::Rr {
                name: rn::name_from_str("s.example"),
                rtype: t,
                class: 1,
                ttl: 1,
                rdata: r.bytes(l),
            });
            return (rn::encode(&m, rn::Compress::None), format!("typed-rdata-short-{}", t));
        }
        _ => {
            // huge: many records with shared suffixes (compression tables under load)
            let mut r2 = r.clone();
            let names = rn::gen_name_pool(&mut r2, 30, true);
            let mut m = dns_query(r.u16(), "big.example", 1, None);
            m.flags = 0x8180;
            let n = r.range(50, 600);
            for _ in 0..n {
                let rr = rn::gen_rr(r, &names, 300);
                if rr.rtype == 41 {
                    continue;
                }
                m.answer.push(rr);
            }
            let mut e = rn::encode(&m, rn::Compress::Full);
            if e.len() > 65535 {
                e.truncate(65535);
            }
            return (e, format!("big-compressed-{}-records", n));
        }
    }
}

// ---------------------------------------------------------------- ICMPv6

pub fn icmp6_seeds() -> Vec<Vec<u8>> {
    let mut v = Vec::new();
    // RS with source link-layer option
    v.push(vec![133, 0, 0, 0, 0, 0, 0, 0, 1, 1, 2, 0, 0x5e, 0x10, 0, 1]);
    // bare RS
    v.push(vec![133, 0, 0, 0, 0, 0, 0, 0]);
    // RA with SLL, MTU, prefix, RDNSS, DNSSL, captive portal, PREF64, unknown option
    let mut ra = vec![134, 0, 0, 0, 64, 0xc0, 0x07, 0x08, 0, 0, 0x75, 0x30, 0, 0, 0x03, 0xe8];
    ra.extend_from_slice(&[1, 1, 2, 0, 0x5e, 0x10, 0, 1]);
    ra.extend_from_slice(&[5, 1, 0, 0, 0, 0, 0x05, 0xdc]);
    ra.extend_from_slice(&[3, 4, 64, 0xc0, 0, 0x27, 0x8d, 0, 0, 9, 0x3a, 0x80, 0, 0, 0, 0]);
    ra.extend_from_slice(&[0x20, 1, 0x0d, 0xb8, 0, 0, 0, 1, 0, 0, 0, 0, 0, 0, 0, 0]);
    ra.extend_from_slice(&[25, 3, 0, 0, 0, 0, 0x0e, 0x10]);
    ra.extend_from_slice(&[0x20, 1, 0x0d, 0xb8, 0, 0, 0, 0, 0, 0, 0, 0, 0, 0, 0, 0x53]);
    ra.extend_from_slice(&[31, 3, 0, 0, 0, 0, 0x0e, 0x10]);
    ra.extend_from_slice(&[7, b'e', b'x', b'a', b'm', b'p', b'l', b'e', 3, b'c', b'o', b'm', 0, 0, 0, 0]);
    ra.extend_from_slice(&[37, 2, b'h', b't', b't', b'p', b':', b'/', b'/', b'e', b'.', b'x', b'/', 0, 0, 0]);
    ra.extend_from_slice(&[38, 2, 0x02, 0x58, 0, 0x64, 0xff, 0x9b, 0, 0, 0, 0, 0, 0, 0, 0]);
    ra.extend_from_slice(&[200, 1, 1, 2, 3, 4, 5, 6]);
    v.push(ra);
    // other ICMPv6 types
    v.push(vec![135, 0, 0, 0, 0, 0, 0, 0, 0xfe, 0x80, 0, 0, 0, 0, 0, 0, 0, 0, 0, 0, 0, 0, 0, 1]);
    v.push(vec![1, 0, 0, 0, 0, 0, 0, 0, 1, 2, 3]);
    v
}

pub fn icmp6_hostile(r: &mut Rng) -> (Vec<u8>, String) {
    let is_ra = r.bool();
    let mut b = if is_ra {
        vec![134, 0, 0, 0, r.u8(), r.u8(), r.u8(), r.u8(), r.u8(), r.u8(), r.u8(), r.u8(), r.u8(), r.u8(), r.u8(), r.u8()]
    } else {
        vec![133, 0, 0, 0, 0, 0, 0, 0]
    };
    let n = r.range(0, 8);
    let mut d = String::new();
    for _ in 0..n {
        let ty = *r.pick(&[1u8, 2, 3, 5, 24, 25, 31, 37, 38, 108, 0, 255]);
        let l = *r.pick(&[0u8, 1, 1, 2, 2, 3, 4, 5, 17, 255]);
        b.push(ty);
        b.push(l);
        let want = (l as usize * 8).saturating_sub(2);
        let have = if r.chance(1, 5) { r.usize(want + 1) } else { want };
        let fill: Vec<u8> = if ty == 37 && r.bool() {
            (0..have).map(|_| if r.chance(1, 6) { 0xff } else { 0 }).collect()
        } else {
            r.bytes(have)
        };
        b.extend(fill);
        d.push_str(&format!("{}:{} ", ty, l));
    }
    (b, format!("{} opts {}", if is_ra { "RA" } else { "RS" }, d))
}

// ---------------------------------------------------------------- LLDP

fn tlv(t: u8, v: &[u8]) -> Vec<u8> {
    let hdr = ((t as u16) << 9) | (v.len() as u16 & 0x1ff);
    let mut o = hdr.to_be_bytes().to_vec();
    o.extend_from_slice(v);
    o
}

pub fn lldp_seeds() -> Vec<Vec<u8>> {
    let mut v = Vec::new();
    let mut p = Vec::new();
    p.extend(tlv(1, &[4, 0, 1, 2, 3, 4, 5]));
    p.extend(tlv(2, &[5, b'e', b't', b'h', b'0']));
    p.extend(tlv(3, &[0, 120]));
    p.extend(tlv(4, b"port description"));
    p.extend(tlv(5, b"switch1"));
    p.extend(tlv(6, b"A switch, running software"));
    p.extend(tlv(7, &[0, 0x14, 0, 0x04]));
    p.extend(tlv(8, &[5, 1, 192, 0, 2, 1, 2, 0, 0, 0, 3, 0]));
    p.extend(tlv(8, &[17, 2, 0x20, 1, 0x0d, 0xb8, 0, 0, 0, 0, 0, 0, 0, 0, 0, 0, 0, 1, 2, 0, 0, 0, 3, 3, 1, 2, 3]));
    p.extend(tlv(127, &[0x00, 0x12, 0x0f, 1, 3, 0x6c, 0, 0, 0x10]));
    p.extend(tlv(127, &[0x00, 0x80, 0xc2, 1, 0, 1]));
    p.extend(tlv(9, &[1, 2, 3]));
    p.extend(tlv(0, &[]));
    v.push(p);
    let mut q = Vec::new();
    q.extend(tlv(1, &[7, b'x']));
    q.extend(tlv(2, &[3, 0, 1, 2, 3, 4, 5]));
    q.extend(tlv(3, &[0, 0]));
    q.extend(tlv(0, &[]));
    v.push(q);
    v
}

pub fn lldp_hostile(r: &mut Rng) -> (Vec<u8>, String) {
    let mut p = Vec::new();
    let mandatory = !r.chance(1, 4);
    if mandatory {
        p.extend(tlv(1, &[*r.pick(&[0u8, 1, 4, 7, 8, 255]), 1, 2, 3]));
        p.extend(tlv(2, &[*r.pick(&[0u8, 1, 3, 7, 8, 255]), 9]));
        p.extend(tlv(3, &r.bytes_of(&[0usize, 1, 2, 3])));
    }
    let n = r.range(0, 10);
    let mut d = String::new();
    for _ in 0..n {
        let t = *r.pick(&[0u8, 1, 2, 3, 4, 5, 6, 7, 8, 8, 8, 9, 126, 127, 127]);
        let l = *r.pick(&[0usize, 1, 2, 3, 4, 5, 6, 8, 9, 31, 32, 33, 255, 511]);
        let mut val = r.bytes(l);
        if t == 8 && !val.is_empty() {
            // management address: first octet is the address-string length
            val[0] = *r.pick(&[0u8, 1, 2, 5, 17, 31, 32, 33, 255]);
        }
        p.extend(tlv(t, &val));
        d.push_str(&format!("{}:{} ", t, l));
    }
    if r.bool() {
        p.extend(tlv(0, &[]));
    }
    if r.chance(1, 5) {
        let cut = r.usize(p.len() + 1);
        p.truncate(cut);
    }
    (p, format!("lldp {}", d))
}
