//! Structure-aware byte mutation: every offset of a valid packet is set to each boundary value
//! (single octet and 16-bit), every truncation point is taken, plus seeded havoc.

use crate::rng::Rng;

pub const BYTE_BOUNDARIES: [u8; 12] = [
    0x00, 0x01, 0x02, 0x3f, 0x40, 0x7f, 0x80, 0xbf, 0xc0, 0xfe, 0xff, 0x07,
];

pub const WORD_BOUNDARIES: [u16; 8] = [
    0x0000, 0x0001, 0x3fff, 0x4000, 0x8000, 0xc000, 0xfffe, 0xffff,
];

/// Number of deterministic mutants of a seed of length n.
pub fn systematic_count(n: usize) -> usize {
    n * (BYTE_BOUNDARIES.len() + 2) + n.saturating_sub(1) * (WORD_BOUNDARIES.len() + 3) + n + 1
}

/// The k-th deterministic mutant; returns (bytes, description).
pub fn systematic(seed: &[u8], k: usize) -> (Vec<u8>, String) {
    let n = seed.len();
    let per_b = BYTE_BOUNDARIES.len() + 2;
    let nb = n * per_b;
    let per_w = WORD_BOUNDARIES.len() + 3;
    let nw = n.saturating_sub(1) * per_w;
    let mut v = seed.to_vec();
    if k < nb {
        let off = k / per_b;
        let which = k % per_b;
        let val = if which < BYTE_BOUNDARIES.len() {
            BYTE_BOUNDARIES[which]
        } else if which == BYTE_BOUNDARIES.len() {
            seed[off].wrapping_add(1)
        } else {
            seed[off].wrapping_sub(1)
        };
        v[off] = val;
        (v, format!("byte@{}={:#x}", off, val))
    } else if k < nb + nw {
        let k = k - nb;
        let off = k / per_w;
        let which = k % per_w;
        let orig = ((seed[off] as u16) << 8) | seed[off + 1] as u16;
        let val = if which < WORD_BOUNDARIES.len() {
            WORD_BOUNDARIES[which]
        } else if which == WORD_BOUNDARIES.len() {
            orig.wrapping_add(1)
        } else if which == WORD_BOUNDARIES.len() + 1 {
            orig.wrapping_sub(1)
        } else {
            (n - off) as u16 // "rest of packet" as a length
        };
        v[off] = (val >> 8) as u8;
        v[off + 1] = val as u8;
        (v, format!("word@{}={:#x}", off, val))
    } else {
        let cut = k - nb - nw;
        v.truncate(cut.min(n));
        (v, format!("truncate@{}", cut))
    }
}

pub fn havoc(r: &mut Rng, seed: &[u8], others: &[Vec<u8>], max_len: usize) -> (Vec<u8>, String) {
    let mut v = seed.to_vec();
    let n = r.range(1, 8);
    let mut desc = String::from("havoc");
    for _ in 0..n {
        if v.is_empty() {
            v.push(r.u8());
        }
        let len = v.len();
        match r.below(9) {
            0 => {
                let o = r.usize(len);
                v[o] = *r.pick(&BYTE_BOUNDARIES);
            }
            1 => {
                let o = r.usize(len);
                v[o] = r.u8();
            }
            2 if len >= 2 => {
                let o = r.usize(len - 1);
                let w = *r.pick(&WORD_BOUNDARIES);
                v[o] = (w >> 8) as u8;
                v[o + 1] = w as u8;
            }
            3 => {
                let o = r.usize(len);
                v.truncate(o);
            }
            4 => {
                // insert a run
                let o = r.usize(len + 1);
                let l = r.len_biased(64);
                let b = if r.bool() { r.u8() } else { 0 };
                let run: Vec<u8> = (0..l).map(|_| if r.chance(1, 4) { r.u8() } else { b }).collect();
                v.splice(o..o, run);
            }
            5 => {
                // delete a run
                let o = r.usize(len);
                let l = r.usize((len - o).min(32) + 1);
                v.drain(o..o + l);
            }
            6 if !others.is_empty() => {
                // splice with another seed
                let other = r.pick(others);
                if !other.is_empty() {
                    let a = r.usize(len);
                    let b = r.usize(other.len());
                    v.truncate(a);
                    v.extend_from_slice(&other[b..]);
                }
            }
            7 => {
                // duplicate a chunk
                let o = r.usize(len);
                let l = r.usize((len - o).min(64) + 1);
                let chunk = v[o..o + l].to_vec();
                let at = r.usize(len + 1);
                v.splice(at..at, chunk);
            }
            _ => {
                // bit flip
                let o = r.usize(len);
                v[o] ^= 1 << r.below(8);
            }
        }
        if v.len() > max_len {
            v.truncate(max_len);
        }
    }
    desc.push_str(&format!("x{}", n));
    (v, desc)
}

/// Random bytes behind a valid prefix of the seed (keeps magic numbers / headers intact).
pub fn prefixed_random(r: &mut Rng, seed: &[u8], keep: usize, max_len: usize) -> Vec<u8> {
    let mut v = seed[..keep.min(seed.len())].to_vec();
    let l = r.len_biased(max_len.saturating_sub(v.len()));
    v.extend(r.bytes(l));
    v
}
