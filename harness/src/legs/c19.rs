//! C19: configuration loading is total, and every accepted configuration is safe to serve.

use crate::guard;
use crate::mutate;
use crate::refcodec::dhcp as rd;
use crate::report::Leg;
use crate::rng::Rng;
use erbium::dhcp;
use erbium_net::addr::{ToNetAddr as _, WithPort as _};
use serde_json::{Value, json};
use std::net::{Ipv4Addr, Ipv6Addr};

// ---------------------------------------------------------------- a tiny YAML document model

#[derive(Clone, Debug, PartialEq)]
pub enum Y {
    Null,
    Bool(bool),
    Int(i128),
    Real(f64),
    Str(String),
    /// emitted verbatim (aliases, bare words, malformed scalars)
    Raw(String),
    List(Vec<Y>),
    Map(Vec<(Y, Y)>),
}

fn s(x: &str) -> Y {
    Y::Str(x.into())
}
fn m(v: Vec<(&str, Y)>) -> Y {
    Y::Map(v.into_iter().map(|(k, v)| (s(k), v)).collect())
}
fn l(v: Vec<Y>) -> Y {
    Y::List(v)
}

impl Y {
    /// Flow-style YAML (a JSON superset), which yaml-rust reads like any other YAML.
    pub fn emit(&self) -> String {
        match self {
            Y::Null => "null".into(),
            Y::Bool(b) => b.to_string(),
            Y::Int(i) => i.to_string(),
            Y::Real(f) => format!("{:?}", f),
            Y::Raw(r) => r.clone(),
            Y::Str(st) => {
                let mut o = String::from("\"");
                for c in st.chars() {
                    match c {
                        '"' => o.push_str("\\\""),
                        '\\' => o.push_str("\\\\"),
                        '\n' => o.push_str("\\n"),
                        '\t' => o.push_str("\\t"),
                        c if (c as u32) < 0x20 => o.push_str(&format!("\\x{:02x}", c as u32)),
                        c => o.push(c),
                    }
                }
                o.push('"');
                o
            }
            Y::List(v) => format!("[{}]", v.iter().map(|x| x.emit()).collect::<Vec<_>>().join(", ")),
            Y::Map(v) => format!("{{{}}}", v.iter().map(|(k, x)| format!("{}: {}", k.emit(), x.emit())).collect::<Vec<_>>().join(", ")),
        }
    }

    fn paths(&self, cur: &mut Vec<usize>, out: &mut Vec<Vec<usize>>) {
        out.push(cur.clone());
        match self {
            Y::List(v) => {
                for (i, x) in v.iter().enumerate() {
                    cur.push(i);
                    x.paths(cur, out);
                    cur.pop();
                }
            }
            Y::Map(v) => {
                for (i, (_, x)) in v.iter().enumerate() {
                    cur.push(i);
                    x.paths(cur, out);
                    cur.pop();
                }
            }
            _ => {}
        }
    }

    fn get_mut(&mut self, path: &[usize]) -> Option<&mut Y> {
        if path.is_empty() {
            return Some(self);
        }
        match self {
            Y::List(v) => v.get_mut(path[0])?.get_mut(&path[1..]),
            Y::Map(v) => v.get_mut(path[0])?.1.get_mut(&path[1..]),
            _ => None,
        }
    }

    fn key_at(&self, path: &[usize]) -> String {
        let mut cur = self;
        let mut key = String::from("<root>");
        for p in path {
            match cur {
                Y::Map(v) => {
                    if let Some((k, x)) = v.get(*p) {
                        if let Y::Str(k) = k {
                            key = k.clone();
                        }
                        cur = x;
                    }
                }
                Y::List(v) => {
                    if let Some(x) = v.get(*p) {
                        cur = x;
                    }
                }
                _ => {}
            }
        }
        key
    }
}

// ---------------------------------------------------------------- base documents

pub fn base_docs() -> Vec<Y> {
    let everything = m(vec![
        ("dns-servers", l(vec![s("$self4"), s("$self6"), s("8.8.8.8"), s("2001:4860:4860::8888")])),
        ("dns-search", l(vec![s("example.com"), s("example.org")])),
        ("captive-portal", s("https://portal.example/")),
        ("addresses", l(vec![s("192.0.2.0/24"), s("2001:db8::/64")])),
        ("api-listeners", l(vec![s("/var/lib/erbium/control"), s("@erbium"), s("[::1]:9968"), s("127.0.0.1:9968")])),
        ("dns-listeners", l(vec![s("[::]:53"), s("127.0.0.2:53")])),
        ("default-listen-style", s("bind-unspecified")),
        (
            "acls",
            l(vec![
                m(vec![("match-subnets", l(vec![s("192.0.2.0/24"), s("2001:db8::/64")])), ("apply-access", l(vec![s("dns-recursion"), s("http-ro")]))]),
                m(vec![("match-unix", Y::Bool(true)), ("apply-access", l(vec![s("http"), s("http-metrics"), s("http-leases"), s("dhcp-client")]))]),
            ]),
        ),
        (
            "dns-routes",
            l(vec![
                m(vec![("domain-suffixes", l(vec![s("")])), ("type", s("forward")), ("dns-servers", l(vec![s("192.0.2.53")]))]),
                m(vec![("domain-suffixes", l(vec![s("invalid"), s("ads.example.com")])), ("type", s("forge-nxdomain"))]),
            ]),
        ),
        (
            "dhcp-policies",
            l(vec![
                m(vec![
                    ("match-subnet", s("192.0.2.0/24")),
                    ("apply-range", m(vec![("start", s("192.0.2.100")), ("end", s("192.0.2.150"))])),
                    ("apply-dns-servers", l(vec![s("$self4"), s("8.8.4.4")])),
                    ("apply-routers", l(vec![s("192.0.2.1")])),
                    ("apply-netmask", s("255.255.255.0")),
                    ("apply-broadcast", s("192.0.2.255")),
                    ("apply-time-offset", Y::Int(3600)),
                    ("apply-domain-name", s("example.com")),
                    ("apply-forward", Y::Bool(false)),
                    ("apply-mtu", Y::Int(1500)),
                    ("apply-default-ttl", Y::Int(64)),
                    ("apply-rebind-time", Y::Int(120)),
                    ("apply-renewal-time", s("90s")),
                    ("apply-arp-timeout", s("1w")),
                    ("apply-max-reassembly", s("1m")),
                    ("apply-dns-searches", l(vec![s("example.com")])),
                    ("apply-ntp-servers", l(vec![s("192.0.2.123")])),
                    ("apply-captive-portal", s("https://p.example/")),
                    ("apply-routes", l(vec![m(vec![("prefix", s("203.0.113.0/24")), ("next-hop", s("192.0.2.254"))])])),
                    ("apply-default-lease", s("1h")),
                    ("apply-max-lease", s("1d")),
                    (
                        "policies",
                        l(vec![
                            m(vec![("match-hardware-address", s("00:00:5e:00:53:01")), ("apply-address", s("192.0.2.110")), ("apply-dns-servers", Y::Null)]),
                            m(vec![("match-host-name", s("myhost")), ("apply-address", s("192.0.2.111"))]),
                            m(vec![("match-class-id", Y::Null), ("match-user-class", s("VPN")), ("apply-subnet", s("192.0.2.192/27"))]),
                            m(vec![("match-client-id", s("01:02:03")), ("match-interface", s("eth0"))]),
                        ]),
                    ),
                ]),
                m(vec![("apply-subnet", s("198.51.100.0/24")), ("policies", l(vec![m(vec![("match-hardware-address", s("00:00:5e:00:53:f0"))])]))]),
            ]),
        ),
        (
            "router-advertisements",
            m(vec![
                (
                    "eth0",
                    m(vec![
                        ("hop-limit", Y::Int(64)),
                        ("managed", Y::Bool(false)),
                        ("other", Y::Bool(true)),
                        ("lifetime", s("1h 30m")),
                        ("reachable", s("30s")),
                        ("retransmit", s("1s")),
                        ("mtu", Y::Int(1480)),
                        ("max-router-advertisement-interval", s("600s")),
                        ("min-router-advertisement-interval", Y::Null),
                        ("captive-portal", s("http://portal.example.com/")),
                        (
                            "prefixes",
                            l(vec![m(vec![("prefix", s("2001:db8::/64")), ("on-link", Y::Bool(true)), ("autonomous", Y::Bool(true)), ("valid", s("7d")), ("preferred", s("24h"))])]),
                        ),
                        ("dns-servers", m(vec![("addresses", l(vec![s("2001:db8::53"), s("$self6")])), ("lifetime", s("6h"))])),
                        ("dns-search", m(vec![("domains", l(vec![s("example.com"), s("example.net")])), ("lifetime", s("6h"))])),
                        ("pref64", m(vec![("prefix", s("64:ff9b::/96")), ("lifetime", s("10m"))])),
                    ]),
                ),
                ("eth1", Y::Null),
            ]),
        ),
    ]);
    let minimal = m(vec![("addresses", l(vec![s("192.0.2.0/24"), s("2001:db8::/64")]))]);
    vec![everything, minimal]
}

pub fn hostile_values(r: &mut Rng, thorough: bool) -> Vec<Y> {
    let mut v = vec![
        Y::Null,
        Y::Bool(true),
        Y::Int(0),
        Y::Int(-1),
        Y::Int(1),
        Y::Int(255),
        Y::Int(256),
        Y::Int(65_535),
        Y::Int(65_536),
        Y::Int(1 << 31),
        Y::Int((1 << 32) - 1),
        Y::Int(1 << 32),
        Y::Int(i64::MAX as i128),
        Y::Int(i64::MIN as i128),
        Y::Raw("99999999999999999999".into()),
        Y::Raw("-99999999999999999999".into()),
        Y::Raw("0x7fffffffffffffff".into()),
        Y::Real(1.5),
        Y::Raw(".inf".into()),
        Y::Raw(".nan".into()),
        Y::Raw("~".into()),
        s(""),
        s("x"),
        s(" "),
        l(vec![]),
        m(vec![]),
        l(vec![l(vec![])]),
        l(vec![Y::Null]),
        l(vec![Y::Int(1)]),
        l(vec![s("x")]),
        l(vec![m(vec![])]),
        m(vec![("a", Y::Null)]),
        Y::Map(vec![(Y::Null, s("x"))]),
        Y::Map(vec![(Y::Int(1), s("x"))]),
        Y::Map(vec![(l(vec![s("k")]), s("x"))]),
        Y::Raw("*nosuchanchor".into()),
        Y::Raw("&a [*a]".into()),
        Y::Raw("!!binary aGVsbG8=".into()),
        // domain names with labels longer than 63 octets whose 63rd/64th octet falls inside a multi-byte character, with empty
        // labels, a trailing dot, 255+ octets in all
        s(&"ö".repeat(40)),
        s(&format!("{}.example", "ö".repeat(33))),
        s(&format!("a{}.example", "ö".repeat(33))),
        s(&format!("{}.example", "€".repeat(22))),
        s(&format!("ab{}.example", "€".repeat(21))),
        s(&format!("{}.example", "😀".repeat(16))),
        s(&format!("abc{}.example", "😀".repeat(16))),
        l(vec![s(&format!("{}.example", "ö".repeat(40))), s(&format!("x{}.example", "ö".repeat(40)))]),
        s(&"a".repeat(64)),
        s(&format!("{}.example", "a".repeat(63))),
        s(&format!("{}.example", "a".repeat(200))),
        s(&vec!["abcdefgh"; 40].join(".")),
        s("a..b"),
        s(".example"),
        s("example."),
        s("."),
        // prefixes
        s("192.0.2.0"),
        s("192.0.2.0/"),
        s("/24"),
        s("192.0.2.0/24/1"),
        s("192.0.2.0/-1"),
        s("192.0.2.0/0"),
        s("192.0.2.77/24"),
        s("192.0.2.0/31"),
        s("192.0.2.1/32"),
        s("192.0.2.0/33"),
        s("192.0.2.0/64"),
        s("192.0.2.0/128"),
        s("192.0.2.0/200"),
        s("192.0.2.0/255"),
        s("192.0.2.0/256"),
        s("0.0.0.0/0"),
        s("::/0"),
        s("::/129"),
        s("2001:db8::/200"),
        s("2001:db8::1/64"),
        s("::ffff:192.0.2.0/90"),
        s("::ffff:192.0.2.0/120"),
        s("::ffff:192.0.2.0/255"),
        s("64:ff9b::/0"),
        s("64:ff9b::/24"),
        s("64:ff9b::/31"),
        s("64:ff9b::/100"),
        s("64:ff9b::/128"),
        // durations
        s("s"),
        s("m"),
        s("5x"),
        s("1h1"),
        s("h1"),
        s("1 h"),
        s("-5"),
        s("-5s"),
        s("99999999999999999999"),
        s("99999999999999999999s"),
        s("18446744073709551615"),
        s("18446744073709551615w"),
        s("3074457345618258603w"),
        s("1w1w1w1w"),
        s("١٢٣"),
        // addresses
        s("$self4"),
        s("$self6"),
        s("$self"),
        s("999.1.1.1"),
        s("0.0.0.0"),
        s("255.255.255.255"),
        s("::"),
        s("::1"),
        s("fe80::1%eth0"),
        // hardware addresses
        s(":"),
        s("0:1"),
        s("zz:zz"),
        s("00:11:22:33:44:55:66:77:88:99:aa:bb:cc:dd:ee:ff:00:11"),
        s("0011"),
        s("é:é"),
        // domains
        s("."),
        s("a..b"),
        s("\\"),
        s("é.example"),
        s(&"a".repeat(300)),
        s(&format!("{}.example", "b".repeat(64))),
        // socket addresses
        s("@"),
        s("@abstract"),
        s("/"),
        s("x/y"),
        s("1.2.3.4:99999"),
        s("1.2.3.4"),
        s("[::1]"),
        s("é"),
        // keywords
        s("forward"),
        s("forge-nxdomain"),
        s("bind-addresses-interfaces"),
        s("bind-unspecified"),
    ];
    if thorough {
        for len in [12u32, 13, 16, 20, 29, 30] {
            v.push(s(&format!("10.0.0.0/{}", len)));
        }
        for _ in 0..10 {
            v.push(Y::Int(r.next() as i64 as i128));
            let n = r.range(0, 40) as usize;
            v.push(Y::Str(String::from_utf8_lossy(&r.bytes(n)).to_string()));
        }
    }
    v
}

/// Pools beyond 2^20 addresses are out of scope (memory exhaustion is not what the property
/// names): the generator never writes them, and documents that still contain one are skipped.
fn has_huge_pool(text: &str) -> bool {
    // prefix lengths 1..11 on an IPv4-looking prefix, or a wide apply-range
    let bytes = text.as_bytes();
    let mut i = 0;
    while i + 1 < bytes.len() {
        if bytes[i] == b'/' && i > 0 && (bytes[i - 1].is_ascii_digit()) {
            let mut j = i + 1;
            let mut n = 0u32;
            let mut digits = 0;
            while j < bytes.len() && bytes[j].is_ascii_digit() && digits < 4 {
                n = n * 10 + (bytes[j] - b'0') as u32;
                j += 1;
                digits += 1;
            }
            // look back: is this an IPv4 dotted quad?
            let mut start = i;
            while start > 0 && (bytes[start - 1].is_ascii_digit() || bytes[start - 1] == b'.') {
                start -= 1;
            }
            let dots = bytes[start..i].iter().filter(|b| **b == b'.').count();
            if digits > 0 && (1..12).contains(&n) && dots == 3 {
                return true;
            }
        }
        i += 1;
    }
    false
}

fn quads_after(text: &str, from: usize, window: usize) -> Vec<u32> {
    let end = (from + window).min(text.len());
    let mut out = Vec::new();
    let bytes = text.as_bytes();
    let mut i = from;
    while i < end {
        if bytes[i] == b'$' && text[i..].starts_with("$self4") {
            // the keyword stands for 0.0.0.0 when it is used as a range end
            out.push(0);
            i += 6;
            continue;
        }
        if bytes[i].is_ascii_digit() {
            let mut j = i;
            while j < text.len() && (bytes[j].is_ascii_digit() || bytes[j] == b'.') {
                j += 1;
            }
            if let Ok(ip) = text[i..j].parse::<Ipv4Addr>() {
                out.push(u32::from(ip));
            }
            i = j;
        } else {
            i += 1;
        }
    }
    out
}

/// An apply-range wider than 2^20 addresses (same exclusion as huge subnets).
fn has_huge_range(text: &str) -> bool {
    let mut from = 0;
    while let Some(p) = text[from..].find("range") {
        let at = from + p;
        let q = quads_after(text, at, 120);
        if q.len() >= 2 {
            let lo = q[0].min(q[1]);
            let hi = q[0].max(q[1]);
            if hi - lo > (1 << 20) {
                return true;
            }
        }
        from = at + 5;
    }
    false
}

// ---------------------------------------------------------------- serving an accepted config

fn dhcp_request(kind: u8, chaddr: &[u8], extra: &[(u8, Vec<u8>)]) -> Vec<u8> {
    let mut msg = rd::Msg {
        hlen: chaddr.len() as u8,
        chaddr: chaddr.to_vec(),
        xid: 77,
        ..Default::default()
    };
    msg.options.push((53, vec![kind]));
    msg.options.push((55, (1..=254u8).filter(|c| *c != 52).collect()));
    for (c, v) in extra {
        msg.options.push((*c, v.clone()));
    }
    rd::encode(&msg)
}

/// Serve DHCP, RA and ACL traffic with an accepted configuration; returns what happened.
fn serve(conf: &erbium::config::SharedConfig, leg: &mut Leg, text: &str, what: &str) {
    let c = conf.try_read().expect("lock");
    // --- DHCP
    let mut serverips: Vec<Ipv4Addr> = vec![Ipv4Addr::new(192, 0, 2, 1), Ipv4Addr::new(198, 51, 100, 1), Ipv4Addr::new(203, 0, 113, 9), Ipv4Addr::new(10, 99, 99, 99), Ipv4Addr::new(192, 0, 2, 254), Ipv4Addr::new(192, 0, 2, 255), Ipv4Addr::new(192, 0, 2, 0)];
    let mut skip_dhcp = false;
    for p in &c.addresses {
        if let erbium::config::Prefix::V4(p4) = p {
            if p4.prefixlen < 12 && p4.prefixlen > 0 {
                skip_dhcp = true;
            }
            let a = u32::from(p4.addr);
            serverips.push(Ipv4Addr::from(a.wrapping_add(1)));
            serverips.push(p4.addr);
        }
    }
    if skip_dhcp {
        leg.count("serve_dhcp_skipped_huge_pool", 1);
    } else {
        let chaddrs: [&[u8]; 3] = [&[0, 0, 0x5e, 0, 0x53, 1], &[0, 0, 0x5e, 0, 0x53, 0xf0], &[2, 9, 9, 9, 9, 9]];
        let extras: Vec<Vec<(u8, Vec<u8>)>> = vec![
            vec![],
            vec![(12, b"myhost".to_vec()), (77, b"VPN".to_vec()), (61, vec![1, 2, 3])],
            vec![(60, b"class".to_vec()), (50, vec![192, 0, 2, 110])],
        ];
        let mut pool = match dhcp::pool::Pool::new_in_memory() {
            Ok(p) => p,
            Err(_) => return,
        };
        for sip in &serverips {
            for (ci, ch) in chaddrs.iter().enumerate() {
                for kind in [1u8, 3] {
                    let bytes = dhcp_request(kind, ch, &extras[ci % extras.len()]);
                    let r = guard::timed(text.as_bytes(), || {
                        let pkt = dhcp::dhcppkt::parse(&bytes).expect("own request");
                        let req = dhcp::DHCPRequest {
                            pkt,
                            serverip: *sip,
                            ifindex: 2,
                            if_mtu: Some(1500),
                            if_router: Some(*sip),
                        };
                        match dhcp::handle_pkt(&mut pool, &req, [*sip].into_iter().collect(), &c) {
                            Ok(rep) => {
                                let _ = rep.serialise();
                                true
                            }
                            Err(_) => false,
                        }
                    });
                    leg.count("serve_dhcp_requests", 1);
                    match r {
                        Ok(true) => leg.count("serve_dhcp_replies", 1),
                        Ok(false) => {}
                        Err(p) => {
                            leg.violation(
                                format!("C19/accepted-config-panics-serving-dhcp/{}/{}", p.site().split(':').next().unwrap_or(""), p.class()),
                                format!("{} at {} (server address {}; {})", p.message, p.location, sip, what),
                                json!({"engine": "c19", "text": text, "how": what}),
                            );
                            return;
                        }
                    }
                }
            }
        }
    }
    // --- router advertisements
    for i in &c.ra.interfaces {
        let r = guard::timed(text.as_bytes(), || {
            let adv = erbium::radv::verif_build_announcement(&c, i, Some([2, 0, 0, 0, 0, 1]), Some(1500), "2001:db8::1".parse().unwrap(), std::time::Duration::from_secs(1800));
            erbium::radv::icmppkt::serialise(&erbium::radv::icmppkt::Icmp6::RtrAdvert(adv)).len()
        });
        leg.count("serve_ra_built", 1);
        if let Err(p) = r {
            leg.violation(
                format!("C19/accepted-config-panics-serving-ra/{}/{}", p.site().split(':').next().unwrap_or(""), p.class()),
                format!("{} at {} ({})", p.message, p.location, what),
                json!({"engine": "c19", "text": text, "how": what}),
            );
            return;
        }
    }
    // --- ACL decisions
    let clients = [
        Ipv4Addr::new(192, 0, 2, 7).with_port(1),
        Ipv4Addr::new(127, 0, 0, 1).with_port(1),
        "2001:db8::7".parse::<Ipv6Addr>().unwrap().with_port(1),
        "::ffff:192.0.2.7".parse::<Ipv6Addr>().unwrap().with_port(1),
        "::1".parse::<Ipv6Addr>().unwrap().with_port(1),
        erbium_net::addr::UnixAddr::new("/run/x").unwrap().to_net_addr(),
    ];
    for cl in clients {
        let r = guard::timed(text.as_bytes(), || {
            use erbium::acl::PermissionType::*;
            for p in [DnsRecursion, Http, HttpLeases, HttpMetrics] {
                let _ = erbium::acl::require_permission(&c.acls, &erbium::acl::Attributes { addr: cl }, p);
            }
        });
        leg.count("serve_acl_decisions", 4);
        if let Err(p) = r {
            leg.violation(
                format!("C19/accepted-config-panics-serving-acl/{}/{}", p.site().split(':').next().unwrap_or(""), p.class()),
                format!("{} at {} (client {}; {})", p.message, p.location, cl, what),
                json!({"engine": "c19", "text": text, "how": what}),
            );
            return;
        }
    }
}

fn try_document(leg: &mut Leg, text: &str, what: &str, must_load: bool) {
    leg.eval();
    if has_huge_pool(text) || has_huge_range(text) {
        leg.count("skipped_pool_beyond_2^20_addresses", 1);
        return;
    }
    let t0 = std::time::Instant::now();
    let res = guard::timed(text.as_bytes(), || erbium::config::verif_load_config_from_string(text));
    let ms = t0.elapsed().as_millis() as u64;
    leg.max("max_load_ms", ms);
    if ms > 10_000 {
        leg.violation("C19/load-takes-longer-than-10s", format!("{} ms ({})", ms, what), json!({"engine": "c19", "text": text, "how": what}));
    }
    let kind = what.split('=').next().unwrap_or("").split('@').next().unwrap_or("").to_string();
    match res {
        Err(p) => {
            leg.class(format!("{}|panic", kind));
            leg.violation(
                format!("C19/loader-panic/{}/{}", p.site().split(':').next().unwrap_or(""), p.class()),
                format!("{} at {} ({})", p.message, p.location, what),
                json!({"engine": "c19", "text": text, "how": what}),
            );
        }
        Ok(Err(e)) => {
            let es = e.to_string();
            leg.class(format!("{}|rejected|{}", kind, es.chars().filter(|c| c.is_ascii_alphabetic() || *c == ' ').take(28).collect::<String>()));
            leg.count("documents_rejected", 1);
            if es.trim().is_empty() {
                leg.violation("C19/error-without-description", what.to_string(), json!({"engine": "c19", "text": text}));
            }
            if must_load {
                leg.violation("C19/documented-example-rejected", format!("{}: {}", what, es), json!({"engine": "c19", "text": text, "how": what}));
            }
        }
        Ok(Ok(conf)) => {
            leg.class(format!("{}|accepted", kind));
            leg.count("documents_accepted", 1);
            serve(&conf, leg, text, what);
        }
    }
}

fn man_examples() -> Vec<String> {
    let mut out = Vec::new();
    if let Ok(text) = std::fs::read_to_string("/repo/man/erbium.conf.5") {
        let mut cur: Option<String> = None;
        for line in text.lines() {
            if line.starts_with(".EX") {
                cur = Some(String::new());
            } else if line.starts_with(".EE") {
                if let Some(c) = cur.take() {
                    out.push(
                        c.replace("\\fIthe-contents-of-the-top-level-addresses-field\\fP", "192.0.2.0/24")
                            .replace("\\fI", "")
                            .replace("\\fP", "")
                            .replace("\\-", "-"),
                    );
                }
            } else if let Some(c) = cur.as_mut() {
                c.push_str(line);
                c.push('\n');
            }
        }
    }
    out
}

fn shipped_example() -> Option<String> {
    let mut contents = std::fs::read_to_string("/repo/erbium.conf.example").ok()?;
    contents = contents.replace("\n#  ", "\n  ");
    contents = contents.replace("\n# ", "\n");
    contents = contents.replace("the-contents-of-the-top-level-addresses-field", "192.0.2.0/24");
    Some(contents)
}

pub fn run(seed: u64, thorough: bool, shards: u64) -> Leg {
    let mut total = Leg::new(
        "c19-config-inproc",
        "C19",
        "documents from a configuration grammar covering every key (top level, dhcp-policies incl. every option type, router-advertisements, dns-routes, acls, listeners) with every node replaced by each of ~130 hostile values (wrong types, empty collections, aliases, boundary numbers, prefix lengths 0..256, malformed durations/addresses/hardware addresses/domains/socket addresses), keys deleted/duplicated/unknown/non-string; byte mutations of the shipped example and the manual's examples (which must themselves load); every accepted document is then served: DISCOVER/REQUEST from 9+ interface addresses x 3 client shapes, RA build+serialise per interface, ACL decisions for 6 client kinds x 4 operations; distinct = (mutation kind, outcome[, error class])",
    );
    total.floor = 3_000;
    // examples first: they must load
    let mut texts: Vec<(String, String)> = Vec::new();
    for (i, e) in man_examples().into_iter().enumerate() {
        texts.push((e, format!("manual-example@{}", i)));
    }
    if let Some(e) = shipped_example() {
        texts.push((e, "shipped-example@uncommented".into()));
    }
    if let Ok(e) = std::fs::read_to_string("/repo/erbium.conf.example") {
        texts.push((e, "shipped-example@verbatim".into()));
    }
    if texts.len() < 3 {
        total.inconclusive("manual examples or shipped example not found under /repo");
    }
    for (t, w) in &texts {
        try_document(&mut total, t, w, true);
    }
    total.count("documented_examples_loaded", texts.len() as u64);
    let docs = base_docs();
    let mut handles = Vec::new();
    for shard in 0..shards {
        let mut leg = total.child();
        let docs = docs.clone();
        let texts = texts.clone();
        handles.push(std::thread::spawn(move || {
            let mut r = Rng::derive(seed, shard, 0xC19);
            let hostile = hostile_values(&mut r, thorough);
            let mut gidx = 0u64;
            // 1. every node x every hostile value (deterministic, sharded)
            for (di, d) in docs.iter().enumerate() {
                let base_text = format!("---\n{}\n", d.emit());
                if shard == 0 {
                    try_document(&mut leg, &base_text, &format!("base-document@{}", di), true);
                    if leg.wants_sample() {
                        leg.sample(json!({"base_document": base_text.chars().take(600).collect::<String>()}));
                    }
                }
                let mut paths = Vec::new();
                d.paths(&mut Vec::new(), &mut paths);
                for p in &paths {
                    if p.is_empty() {
                        continue;
                    }
                    for (hi, h) in hostile.iter().enumerate() {
                        gidx += 1;
                        if gidx % shards != shard {
                            continue;
                        }
                        if !thorough && di == 0 && (gidx / shards) % 3 != 0 {
                            continue; // quick tier: a third of the product, different third per seed
                        }
                        let mut doc = d.clone();
                        let key = d.key_at(p);
                        if let Some(node) = doc.get_mut(p) {
                            *node = h.clone();
                        }
                        let text = format!("---\n{}\n", doc.emit());
                        try_document(&mut leg, &text, &format!("substitute={} <- #{} {}", key, hi, h.emit().chars().take(40).collect::<String>()), false);
                    }
                    // key-level mutations
                    gidx += 1;
                    if gidx % shards == shard {
                        let (parent, last) = p.split_at(p.len() - 1);
                        for variant in 0..4 {
                            let mut doc = d.clone();
                            if let Some(Y::Map(v)) = doc.get_mut(parent) {
                                let idx = last[0];
                                if idx < v.len() {
                                    match variant {
                                        0 => {
                                            v.remove(idx);
                                        }
                                        1 => {
                                            let dup = v[idx].clone();
                                            v.push(dup);
                                        }
                                        2 => v[idx].0 = s("no-such-key"),
                                        _ => v[idx].0 = match r.below(3) {
                                            0 => Y::Null,
                                            1 => Y::Int(7),
                                            _ => l(vec![s("k")]),
                                        },
                                    }
                                    let text = format!("---\n{}\n", doc.emit());
                                    try_document(&mut leg, &text, &format!("key-mutation={} variant {}", d.key_at(p), variant), false);
                                }
                            } else if let Some(Y::List(v)) = doc.get_mut(parent) {
                                let idx = last[0];
                                if idx < v.len() && variant < 2 {
                                    if variant == 0 {
                                        v.remove(idx);
                                    } else {
                                        let dup = v[idx].clone();
                                        for _ in 0..130 {
                                            v.push(dup.clone());
                                        }
                                    }
                                    let text = format!("---\n{}\n", doc.emit());
                                    try_document(&mut leg, &text, &format!("list-mutation={} variant {}", d.key_at(p), variant), false);
                                }
                            }
                        }
                    }
                }
            }
            // 2. pairs of substitutions (two cooperating sites)
            let npairs: u64 = if thorough { 400_000 } else { 6_000 };
            for _ in 0..npairs / shards {
                let d = &docs[0];
                let mut paths = Vec::new();
                d.paths(&mut Vec::new(), &mut paths);
                let mut doc = d.clone();
                let k = r.range(2, 3);
                let mut desc = String::new();
                for _ in 0..k {
                    let p = r.pick(&paths).clone();
                    if p.is_empty() {
                        continue;
                    }
                    let h = r.pick(&hostile).clone();
                    desc.push_str(&format!("{}<-{}; ", d.key_at(&p), h.emit().chars().take(24).collect::<String>()));
                    if let Some(node) = doc.get_mut(&p) {
                        *node = h;
                    }
                }
                let text = format!("---\n{}\n", doc.emit());
                try_document(&mut leg, &text, &format!("multi-substitute={}", desc), false);
            }
            // 3. byte mutations of the documented examples
            let nbytes: u64 = if thorough { 600_000 } else { 8_000 };
            let seeds: Vec<Vec<u8>> = texts.iter().map(|(t, _)| t.as_bytes().to_vec()).collect();
            if !seeds.is_empty() {
                for _ in 0..nbytes / shards {
                    let sd = r.pick(&seeds).clone();
                    let (b, _) = mutate::havoc(&mut r, &sd, &seeds, 20_000);
                    let text = String::from_utf8_lossy(&b).to_string();
                    try_document(&mut leg, &text, "byte-mutation@example", false);
                }
            }
            leg
        }));
    }
    for h in handles {
        match h.join() {
            Ok(l) => total.merge(l),
            Err(_) => total.inconclusive("shard thread died"),
        }
    }
    total
}

pub fn replay(v: &Value) -> Leg {
    let mut leg = Leg::new("c19-replay", "C19", "replay of one recorded document");
    let text = v["text"].as_str().unwrap_or("");
    try_document(&mut leg, text, v["how"].as_str().unwrap_or("replay"), false);
    leg
}
