//! C05 in-process leg: every network-facing decoder / handler under systematic boundary
//! mutation, grammar-built hostile packets and random bytes, with a panic observer (overflow and
//! bounds checks are compiled in) and a non-termination watchdog.

use crate::corpus;
use crate::guard;
use crate::mutate;
use crate::report::{Leg, hex};
use crate::rng::Rng;
use erbium::dhcp;
use erbium::dhcp::dhcppkt;
use erbium_net::addr::WithPort as _;
use serde_json::json;
use std::net::Ipv4Addr;

#[derive(Clone, Copy, Debug, PartialEq, Eq)]
pub enum H {
    Dhcp,
    DnsQuery,
    DnsReply,
    Icmp6,
    Lldp,
    Pkt,
}

impl H {
    pub fn name(&self) -> &'static str {
        match self {
            H::Dhcp => "dhcp",
            H::DnsQuery => "dns-query",
            H::DnsReply => "dns-upstream-reply",
            H::Icmp6 => "icmp6",
            H::Lldp => "lldp",
            H::Pkt => "pktparser",
        }
    }
    pub fn from(s: &str) -> Option<H> {
        Some(match s {
            "dhcp" => H::Dhcp,
            "dns-query" => H::DnsQuery,
            "dns-upstream-reply" => H::DnsReply,
            "icmp6" => H::Icmp6,
            "lldp" => H::Lldp,
            "pktparser" => H::Pkt,
            _ => return None,
        })
    }
}

const FUZZ_CONF: &str = "---
dns-servers: [$self4, 8.8.8.8]
dns-search: [example.com]
captive-portal: http://portal.example/
addresses: [192.168.0.0/24]
dhcp-policies:
  - match-subnet: 192.168.0.0/24
    apply-range: { start: 192.168.0.20, end: 192.168.0.250 }
    apply-ntp-servers: [192.168.0.1]
    apply-routes:
      - { prefix: 10.0.0.0/8, next-hop: 192.168.0.1 }
    policies:
      - { match-host-name: laptop, apply-domain-name: lap.example }
      - { match-class-id: null, apply-mtu: 1400 }
";

pub struct Ctx {
    pub conf: erbium::config::SharedConfig,
    pub pool: dhcp::pool::Pool,
    pub served: u64,
    pub rt: tokio::runtime::Runtime,
    pub upstream_reply: Option<erbium::dns::dnspkt::DNSPkt>,
    pub query: Option<erbium::dns::dnspkt::DNSPkt>,
}

impl Ctx {
    pub fn new() -> Result<Ctx, String> {
        let conf = erbium::config::verif_load_config_from_string(FUZZ_CONF)
            .map_err(|e| format!("fuzz config rejected: {}", e))?;
        let seeds = corpus::dns_seeds();
        let query = erbium::dns::verif::parse(&seeds[1]).ok();
        let upstream_reply = erbium::dns::verif::parse(&seeds[3]).ok();
        Ok(Ctx {
            conf,
            pool: dhcp::pool::Pool::new_in_memory().map_err(|e| e.to_string())?,
            served: 0,
            rt: tokio::runtime::Builder::new_current_thread()
                .enable_all()
                .build()
                .map_err(|e| e.to_string())?,
            upstream_reply,
            query,
        })
    }
}

/// Run one input through one handler.  Returns an outcome class (for coverage accounting).
pub fn run_one(h: H, ctx: &mut Ctx, b: &[u8]) -> Result<String, guard::Panicked> {
    match h {
        H::Dhcp => {
            ctx.served += 1;
            if ctx.served % 200 == 0 {
                // fresh store so the pool never runs dry
                if let Ok(p) = dhcp::pool::Pool::new_in_memory() {
                    ctx.pool = p;
                }
            }
            let conf = ctx.conf.clone();
            let pool = &mut ctx.pool;
            guard::timed(b, move || {
                let pkt = match dhcppkt::parse(b) {
                    Ok(p) => p,
                    Err(e) => return format!("decode-err:{:?}", e),
                };
                // what the service logs for every packet
                let _ = format!("{:?}", pkt);
                for (k, v) in pkt.options.other.iter() {
                    let _ = format!(
                        "{}({})",
                        k,
                        k.get_type()
                            .and_then(|x| x.decode(v))
                            .map(|x| format!("{}", x))
                            .unwrap_or_else(|| "<decode-failed>".into())
                    );
                }
                let _ = pkt.options.get_hostname();
                let _ = pkt.get_client_id();
                let _ = pkt.get_broadcast_flag();
                let req = dhcp::DHCPRequest {
                    pkt,
                    serverip: Ipv4Addr::new(192, 168, 0, 1),
                    ifindex: 2,
                    if_mtu: Some(1500),
                    if_router: Some(Ipv4Addr::new(192, 168, 0, 1)),
                };
                let c = conf.try_read().expect("config lock");
                let ids = [Ipv4Addr::new(192, 168, 0, 1)].into_iter().collect();
                match dhcp::handle_pkt(pool, &req, ids, &c) {
                    Ok(rep) => {
                        let wire = rep.serialise();
                        for (k, v) in rep.options.other.iter() {
                            let _ = k.get_type().and_then(|x| x.decode(v)).map(|x| format!("{}", x));
                        }
                        // ... and the service frames it for the raw socket (Ethernet + IPv4 + UDP with both checksums), to the
                        // address it hands out or to broadcast, as recvdhcp() does
                        if let Ok(chaddr) = <[u8; 6]>::try_from(&rep.chaddr[..]) {
                            let dst_ip = if req.pkt.get_broadcast_flag() { Ipv4Addr::BROADCAST } else { rep.yiaddr };
                            let src = erbium_net::addr::Inet4Addr::from(std::net::SocketAddrV4::new(Ipv4Addr::new(192, 168, 0, 1), 67));
                            let dst = erbium_net::addr::Inet4Addr::from(std::net::SocketAddrV4::new(dst_ip, 68));
                            let frame = erbium_net::packet::Fragment::new_udp4(src, &[2, 0, 0, 0, 0, 1], dst, &chaddr, erbium_net::packet::Tail::Payload(&wire)).flatten();
                            if frame.len() < wire.len() + 42 {
                                return "reply-frame-short".to_string();
                            }
                        }
                        // a conforming client must be able to read it back
                        match dhcppkt::parse(&wire) {
                            Ok(_) => "reply".to_string(),
                            Err(e) => format!("reply-undecodable:{:?}", e),
                        }
                    }
                    Err(e) => format!("handler-err:{}", e.to_string().split(':').next().unwrap_or("")),
                }
            })
        }
        H::DnsQuery | H::DnsReply => {
            let rt = &ctx.rt;
            let base_query = ctx.query.clone();
            let base_reply = ctx.upstream_reply.clone();
            guard::timed(b, move || {
                let pkt = match erbium::dns::verif::parse(b) {
                    Ok(p) => p,
                    Err(e) => {
                        let mut e = e;
                        e.truncate(24);
                        return format!("decode-err:{}", e.chars().filter(|c| !c.is_ascii_digit()).collect::<String>());
                    }
                };
                let _ = format!("{:?}", pkt);
                if let Some(e) = &pkt.edns {
                    let _ = e.get_cookie();
                    let _ = e.get_nsid();
                    let _ = e.get_extended_dns_error();
                }
                let _ = pkt.status();
                let _ = pkt.get_expiry();
                let dec = pkt.get_expiry().as_secs().min(u32::MAX as u64) as u32;
                let _ = pkt.clone_with_ttl_decrement(dec);
                let wire = pkt.serialise();
                let _ = erbium::dns::verif::parse(&wire);
                let _ = pkt.serialise_with_size(512);
                let _ = erbium::dns::verif::prepare_to_send(&pkt, pkt.bufsize as usize);
                // the listener's reply construction with this packet in either role
                let (q, r) = if h == H::DnsQuery {
                    (pkt.clone(), base_reply.clone().unwrap_or_else(|| pkt.clone()))
                } else {
                    (base_query.clone().unwrap_or_else(|| pkt.clone()), pkt.clone())
                };
                let msg = erbium::dns::DnsMessage {
                    in_size: b.len(),
                    in_query: q,
                    local_ip: std::net::IpAddr::V4(Ipv4Addr::new(192, 0, 2, 53)),
                    remote_addr: Ipv4Addr::new(192, 0, 2, 7).with_port(40000),
                    protocol: erbium::dns::Protocol::Udp,
                };
                let _ = erbium::dns::verif::cookie_validate(&msg, &[1; 8], &[2; 8]);
                let rep = rt.block_on(erbium::dns::verif::create_in_reply(&msg, &r));
                let out = rep.serialise();
                let _ = erbium::dns::verif::prepare_to_send(&rep, msg.in_query.bufsize as usize);
                format!("ok:an{}:ns{}:ar{}:edns{}:{}", rep.answer.len().min(3), rep.nameserver.len().min(3), rep.additional.len().min(3), pkt.edns.is_some(), if out.len() > 512 { "big" } else { "small" })
            })
        }
        H::Icmp6 => guard::timed(b, move || match erbium::radv::icmppkt::parse(b) {
            Ok(m) => {
                let s = format!("{:?}", m);
                format!("ok:{}", s.split('(').next().unwrap_or(""))
            }
            Err(e) => format!("err:{:?}", e),
        }),
        H::Lldp => guard::timed(b, move || {
            use erbium::pktparser::Deserialise as _;
            let mut buf = erbium::pktparser::Buffer::new(b);
            match erbium::lldp::lldppkt::LldpPacket::from_wire(&mut buf) {
                Ok(p) => {
                    let _ = format!("{:?}", p);
                    let _ = format!("{}", p);
                    format!("ok:{}", p.tlvs.len().min(8))
                }
                Err(e) => {
                    let s = format!("{:?}", e);
                    format!("err:{}", s.split('(').next().unwrap_or(""))
                }
            }
        }),
        H::Pkt => guard::timed(b, move || {
            // the primitives, driven the way their callers drive them: lengths come from the data
            let mut buf = erbium::pktparser::Buffer::new(b);
            let mut n = 0;
            while buf.remaining() > 0 && n < 10_000 {
                n += 1;
                match buf.get_u8().unwrap_or(0) % 8 {
                    0 => {
                        let _ = buf.get_tlv();
                    }
                    1 => {
                        let _ = buf.get_be16();
                    }
                    2 => {
                        let _ = buf.get_be32();
                    }
                    3 => {
                        let _ = buf.get_ipv4();
                    }
                    4 => {
                        let l = buf.peek_u8().unwrap_or(0) as usize;
                        let _ = buf.get_bytes(l);
                    }
                    5 => {
                        let l = buf.get_u8().unwrap_or(0) as usize;
                        if let Some(mut sub) = buf.get_buffer(l) {
                            let _ = sub.get_domains();
                            let _ = format!("{}", sub);
                        }
                    }
                    6 => {
                        let l = buf.get_u8().unwrap_or(0) as usize;
                        let _ = buf.get_vec(l);
                    }
                    _ => {
                        let _ = format!("{} {} {}", buf.size(), buf.remaining(), buf.empty());
                    }
                }
            }
            let mut d = erbium::pktparser::Buffer::new(b);
            match d.get_domains() {
                Some(v) => format!("domains:{}", v.len().min(4)),
                None => "domains:none".into(),
            }
        }),
    }
}

fn seeds_for(h: H) -> Vec<Vec<u8>> {
    match h {
        H::Dhcp => corpus::dhcp_seeds(),
        H::DnsQuery => corpus::dns_seeds()[..3].to_vec(),
        H::DnsReply => corpus::dns_seeds()[3..].to_vec(),
        H::Icmp6 => corpus::icmp6_seeds(),
        H::Lldp => corpus::lldp_seeds(),
        H::Pkt => {
            let mut v = corpus::lldp_seeds();
            v.push(vec![7, b'e', b'x', b'a', b'm', b'p', b'l', b'e', 3, b'c', b'o', b'm', 0, 3, b'n', b'e', b't', 0]);
            v
        }
    }
}

fn hostile_for(h: H, r: &mut Rng) -> (Vec<u8>, String) {
    match h {
        H::Dhcp => corpus::dhcp_hostile(r),
        H::DnsQuery | H::DnsReply => corpus::dns_hostile(r),
        H::Icmp6 => corpus::icmp6_hostile(r),
        H::Lldp | H::Pkt => corpus::lldp_hostile(r),
    }
}

const ALL: [H; 6] = [H::Dhcp, H::DnsQuery, H::DnsReply, H::Icmp6, H::Lldp, H::Pkt];

fn observe(leg: &mut Leg, h: H, kind: &str, desc: &str, b: &[u8], res: Result<String, guard::Panicked>, t: std::time::Duration) {
    leg.eval();
    leg.count(&format!("inputs_{}", h.name()), 1);
    leg.max("max_decode_ms", t.as_millis() as u64);
    match res {
        Ok(class) => {
            leg.class(format!("{}|{}|{}", h.name(), kind, class));
            if class.starts_with("reply-undecodable") {
                // not a crash; C12 owns reply decodability.  Counted only.
                leg.count("dhcp_reply_not_decodable", 1);
            }
        }
        Err(p) => {
            let file = p.site().split(':').next().unwrap_or("").to_string();
            let sig = format!("C05/panic/{}/{}/{}", h.name(), file, p.class());
            leg.violation(
                sig,
                format!("{} at {} on {} input ({}; {} octets)", p.message, p.location, kind, desc, b.len()),
                json!({"engine": "c05", "handler": h.name(), "input_hex": hex(b), "how": desc}),
            );
        }
    }
}

pub fn run(seed: u64, thorough: bool, shards: u64, budget: u64) -> Leg {
    let mut total = Leg::new(
        "c05-decoders-inproc",
        "C05",
        "for each handler (dhcp parse+handle_pkt+serialise+raw-socket framing of the reply+log decoders; plus a sweep of the low half of the transaction id over a valid DISCOVER and REQUEST, dns query path, dns upstream-reply path, icmp6 parse, lldp from_wire, pktparser primitives): every offset of every valid seed set to 14 single-octet and 11 two-octet boundary values, every truncation point, grammar-built hostile packets, havoc mutants and random bytes up to 65535 octets; distinct = (handler, input kind, outcome class)",
    );
    total.floor = 10_000;
    let mut handles = Vec::new();
    for shard in 0..shards {
        let mut leg = total.child();
        handles.push(std::thread::spawn(move || {
            let mut ctx = match Ctx::new() {
                Ok(c) => c,
                Err(e) => {
                    leg.inconclusive(e);
                    return leg;
                }
            };
            // 1. systematic mutants, partitioned across shards
            let mut gidx = 0u64;
            for h in ALL {
                let seeds = seeds_for(h);
                for (si, s) in seeds.iter().enumerate() {
                    if leg.wants_sample() && shard == 0 {
                        leg.sample(json!({"handler": h.name(), "seed_packet_hex": hex(&s[..s.len().min(80)]), "seed_len": s.len()}));
                    }
                    // long seeds are subsampled in the quick tier
                    let n = mutate::systematic_count(s.len());
                    let stride = if !thorough && n > 12_000 { n / 12_000 + 1 } else { 1 };
                    let mut k = 0;
                    while k < n {
                        gidx += 1;
                        if gidx % shards == shard {
                            let (b, d) = mutate::systematic(s, k);
                            let t0 = std::time::Instant::now();
                            let res = run_one(h, &mut ctx, &b);
                            observe(&mut leg, h, "systematic", &format!("seed{} {}", si, d), &b, res, t0.elapsed());
                        }
                        k += stride;
                    }
                }
            }
            // 1b. everything a reply echoes from the request goes into its checksums: one valid DISCOVER and one valid REQUEST
            // with every value of the low half of the transaction id (65 536 replies each, framed as the service frames them)
            for (si, s) in corpus::dhcp_seeds().iter().take(2).enumerate() {
                let mut lo = shard;
                while lo < 65_536 {
                    let mut b = s.clone();
                    if b.len() >= 8 {
                        b[6] = (lo >> 8) as u8;
                        b[7] = lo as u8;
                    }
                    let t0 = std::time::Instant::now();
                    let res = run_one(H::Dhcp, &mut ctx, &b);
                    if matches!(&res, Ok(c) if c == "reply") {
                        leg.count("dhcp_replies_framed_in_xid_sweep", 1);
                    }
                    observe(&mut leg, H::Dhcp, "xid-sweep", &format!("seed{} xid low half {:#06x}", si, lo), &b, res, t0.elapsed());
                    lo += if thorough { shards } else { shards * 2 };
                }
            }
            // 2. hostile grammar + havoc + random, seeded per shard
            let mut r = Rng::derive(seed, shard, 0xC05);
            let per = budget / shards;
            for i in 0..per {
                let h = ALL[(i % ALL.len() as u64) as usize];
                let seeds = seeds_for(h);
                let (b, kind, d) = match r.below(10) {
                    0..=3 => {
                        let (b, d) = hostile_for(h, &mut r);
                        (b, "hostile", d)
                    }
                    4..=7 => {
                        let s = r.pick(&seeds).clone();
                        let base = if r.chance(1, 3) { hostile_for(h, &mut r).0 } else { s };
                        let (b, d) = mutate::havoc(&mut r, &base, &seeds, 65_535);
                        (b, "havoc", d)
                    }
                    8 => {
                        let s = r.pick(&seeds).clone();
                        let keep = match h {
                            H::Dhcp => 240,
                            H::DnsQuery | H::DnsReply => 12,
                            H::Icmp6 => 8,
                            _ => 2,
                        };
                        (mutate::prefixed_random(&mut r, &s, keep, 65_535), "valid-prefix-random", String::new())
                    }
                    _ => {
                        let l = r.len_biased(65_535);
                        (r.bytes(l), "random", String::new())
                    }
                };
                let t0 = std::time::Instant::now();
                let res = run_one(h, &mut ctx, &b);
                observe(&mut leg, h, kind, &d, &b, res, t0.elapsed());
            }
            leg
        }));
    }
    for h in handles {
        match h.join() {
            Ok(l) => total.merge(l),
            Err(_) => total.inconclusive("shard thread died"),
        }
    }
    total
}

pub fn replay(v: &serde_json::Value) -> Leg {
    let mut leg = Leg::new("c05-replay", "C05", "replay of one recorded input");
    let h = H::from(v["handler"].as_str().unwrap_or("")).unwrap_or(H::Dhcp);
    let b = crate::report::unhex(v["input_hex"].as_str().unwrap_or(""));
    match Ctx::new() {
        Ok(mut ctx) => {
            let t0 = std::time::Instant::now();
            let res = run_one(h, &mut ctx, &b);
            observe(&mut leg, h, "replay", "replay", &b, res, t0.elapsed());
        }
        Err(e) => leg.inconclusive(e),
    }
    leg
}

/// Hostile inputs for the end-to-end rig: JSON lines {"hex":..., "how":...}.
pub fn dump_corpus(handler: &str, seed: u64, n: u64, out: &str) {
    let h = H::from(handler).unwrap_or(H::Dhcp);
    let seeds = seeds_for(h);
    let mut r = Rng::derive(seed, 0xD0, n);
    let mut lines = Vec::new();
    // a spread of systematic mutants of every seed
    let total: usize = seeds.iter().map(|s| mutate::systematic_count(s.len())).sum();
    let want_sys = (n / 2) as usize;
    let stride = (total / want_sys.max(1)).max(1);
    let mut g = r.usize(stride);
    for (si, s) in seeds.iter().enumerate() {
        let cnt = mutate::systematic_count(s.len());
        while g < cnt {
            let (b, d) = mutate::systematic(s, g);
            lines.push(json!({"hex": hex(&b), "how": format!("systematic seed{} {}", si, d)}).to_string());
            g += stride;
        }
        g -= cnt.min(g);
    }
    while (lines.len() as u64) < n {
        let (b, how) = match r.below(10) {
            0..=4 => {
                let (b, d) = hostile_for(h, &mut r);
                (b, format!("hostile {}", d))
            }
            5..=7 => {
                let s = r.pick(&seeds).clone();
                let (b, d) = mutate::havoc(&mut r, &s, &seeds, 1400);
                (b, d)
            }
            8 => {
                let s = r.pick(&seeds).clone();
                (mutate::prefixed_random(&mut r, &s, if h == H::Dhcp { 240 } else { 12 }, 1400), "valid-prefix-random".to_string())
            }
            _ => {
                let l = r.len_biased(1400);
                (r.bytes(l), "random".to_string())
            }
        };
        lines.push(json!({"hex": hex(&b), "how": how}).to_string());
    }
    std::fs::write(out, lines.join("\n") + "\n").expect("write corpus");
}
