//! C08 in-process leg: ACL lists loaded through the real loader, decisions compared with an
//! independent first-match model.

use crate::guard;
use crate::report::Leg;
use crate::rng::Rng;
use erbium::acl;
use erbium_net::addr::{ToNetAddr as _, WithPort as _};
use serde_json::{Value, json};
use std::net::{IpAddr, Ipv4Addr, Ipv6Addr};

#[derive(Clone, Debug)]
pub enum Pfx {
    V4(u32, u8),
    V6(u128, u8),
}

impl Pfx {
    pub fn text(&self) -> String {
        match self {
            Pfx::V4(a, l) => format!("{}/{}", Ipv4Addr::from(*a), l),
            Pfx::V6(a, l) => format!("{}/{}", Ipv6Addr::from(*a), l),
        }
    }
    fn host_bits(&self) -> bool {
        match self {
            Pfx::V4(a, l) => *a & !mask4(*l) != 0,
            Pfx::V6(a, l) => *a & !mask6(*l) != 0,
        }
    }
}

fn mask4(l: u8) -> u32 {
    if l == 0 { 0 } else { u32::MAX << (32 - l as u32) }
}
fn mask6(l: u8) -> u128 {
    if l == 0 { 0 } else { u128::MAX << (128 - l as u32) }
}

#[derive(Clone, Debug)]
pub enum Client {
    V4(u32),
    V6(u128),
    /// an IPv4 client as seen on a dual-stack socket (::ffff:a.b.c.d)
    Mapped(u32),
    Unix,
}

impl Client {
    pub fn text(&self) -> String {
        match self {
            Client::V4(a) => Ipv4Addr::from(*a).to_string(),
            Client::V6(a) => Ipv6Addr::from(*a).to_string(),
            Client::Mapped(a) => format!("::ffff:{}", Ipv4Addr::from(*a)),
            Client::Unix => "unix".into(),
        }
    }
}

/// Some(true/false) = the prefix does / does not contain the client; None = the documentation
/// is silent (IPv6 prefix against a plain IPv4 client), left unconstrained.
fn contains(p: &Pfx, c: &Client) -> Option<bool> {
    match (p, c) {
        (_, Client::Unix) => Some(false),
        (Pfx::V4(a, l), Client::V4(x)) | (Pfx::V4(a, l), Client::Mapped(x)) => Some(x & mask4(*l) == a & mask4(*l)),
        (Pfx::V4(..), Client::V6(_)) => Some(false),
        (Pfx::V6(a, l), Client::V6(x)) => Some(x & mask6(*l) == a & mask6(*l)),
        (Pfx::V6(a, l), Client::Mapped(x)) => {
            let x6 = 0xffff_0000_0000u128 | *x as u128;
            Some(x6 & mask6(*l) == a & mask6(*l))
        }
        (Pfx::V6(a, l), Client::V4(x)) => {
            let x6 = 0xffff_0000_0000u128 | *x as u128;
            if x6 & mask6(*l) == a & mask6(*l) { None } else { Some(false) }
        }
    }
}

#[derive(Clone, Debug, Default)]
pub struct Rule {
    pub subnets: Option<Vec<Pfx>>,
    pub unix: Option<bool>,
    pub access: Vec<&'static str>,
}

pub const ACCESSES: [&str; 6] = ["dns-recursion", "http", "http-metrics", "http-leases", "http-ro", "dhcp-client"];

#[derive(Clone, Copy, Debug, PartialEq, Eq)]
pub enum Perm {
    Dns,
    Http,
    Metrics,
    Leases,
}

/// Some(bool) per the manual; None where the manual and common sense disagree (does "http-ro"
/// include the root page?).
fn rule_grants(r: &Rule, p: Perm) -> Option<bool> {
    let has = |s: &str| r.access.iter().any(|a| *a == s);
    match p {
        Perm::Dns => Some(has("dns-recursion") || has("dhcp-client")),
        Perm::Metrics => Some(has("http-metrics") || has("http-ro")),
        Perm::Leases => Some(has("http-leases") || has("http-ro")),
        Perm::Http => {
            if has("http") {
                Some(true)
            } else if has("http-ro") {
                None
            } else {
                Some(false)
            }
        }
    }
}

/// First-match decision.  None = unconstrained.
pub fn model(rules: &[Rule], c: &Client, p: Perm) -> Option<bool> {
    model_idx(rules, c, p).0
}

/// Decision plus the index of the rule that decided.
pub fn model_idx(rules: &[Rule], c: &Client, p: Perm) -> (Option<bool>, Option<usize>) {
    for (i, r) in rules.iter().enumerate() {
        let mut m = Some(true);
        if let Some(ss) = &r.subnets {
            let mut any = Some(false);
            for s in ss {
                match contains(s, c) {
                    Some(true) => {
                        any = Some(true);
                        break;
                    }
                    None => any = None,
                    Some(false) => {}
                }
            }
            m = any;
        }
        if let Some(u) = r.unix {
            let is_unix = matches!(c, Client::Unix);
            if is_unix != u {
                m = Some(false);
            }
        }
        match m {
            Some(true) => return (rule_grants(r, p), Some(i)),
            None => return (None, Some(i)),
            Some(false) => {}
        }
    }
    (Some(false), None)
}

pub fn rules_yaml(rules: &[Rule]) -> String {
    let mut s = String::from("acls:\n");
    if rules.is_empty() {
        return "acls: []\n".into();
    }
    for r in rules {
        let mut first = true;
        let mut line = |k: String, s: &mut String| {
            s.push_str(if first { " - " } else { "   " });
            first = false;
            s.push_str(&k);
            s.push('\n');
        };
        if let Some(ss) = &r.subnets {
            line(format!("match-subnets: [{}]", ss.iter().map(|p| format!("'{}'", p.text())).collect::<Vec<_>>().join(", ")), &mut s);
        }
        if let Some(u) = r.unix {
            line(format!("match-unix: {}", u), &mut s);
        }
        line(format!("apply-access: [{}]", r.access.iter().map(|a| format!("'{}'", a)).collect::<Vec<_>>().join(", ")), &mut s);
    }
    s
}

fn gen_pfx(r: &mut Rng, pool4: &[u32], pool6: &[u128]) -> Pfx {
    if r.chance(3, 5) {
        let a = *r.pick(pool4);
        let l = match r.below(6) {
            0 => 0,
            1 => 32,
            2 => 8 * r.range(1, 3) as u8,
            _ => r.range(0, 32) as u8,
        };
        if r.chance(1, 2) { Pfx::V4(a & mask4(l), l) } else { Pfx::V4(a, l) }
    } else {
        let a = *r.pick(pool6);
        let l = match r.below(6) {
            0 => 0,
            1 => 128,
            2 => 64,
            _ => r.range(0, 128) as u8,
        };
        if r.chance(1, 2) { Pfx::V6(a & mask6(l), l) } else { Pfx::V6(a, l) }
    }
}

pub fn gen_rules(r: &mut Rng, pool4: &[u32], pool6: &[u128]) -> Vec<Rule> {
    let n = r.range(0, 6);
    (0..n)
        .map(|_| {
            let subnets = if r.chance(3, 4) {
                let k = r.range(0, 3);
                Some((0..k).map(|_| gen_pfx(r, pool4, pool6)).collect())
            } else {
                None
            };
            let unix = match r.below(5) {
                0 => Some(true),
                1 => Some(false),
                _ => None,
            };
            let mut access = Vec::new();
            for a in ACCESSES {
                if r.chance(1, 3) {
                    access.push(a);
                }
            }
            Rule { subnets, unix, access }
        })
        .collect()
}

pub fn gen_client(r: &mut Rng, pool4: &[u32], pool6: &[u128]) -> Client {
    let jitter4 = |r: &mut Rng, a: u32| match r.below(4) {
        0 => a,
        1 => a ^ (1 << r.below(32)),
        2 => a.wrapping_add(r.below(300) as u32),
        _ => r.u32(),
    };
    match r.below(10) {
        0 => Client::Unix,
        1..=4 => {
            let a = *r.pick(pool4);
            Client::V4(jitter4(r, a))
        }
        5..=6 => {
            let a = *r.pick(pool4);
            Client::Mapped(jitter4(r, a))
        }
        _ => {
            let a = *r.pick(pool6);
            Client::V6(match r.below(4) {
                0 => a,
                1 => a ^ (1u128 << r.below(128)),
                2 => a.wrapping_add(r.below(70_000) as u128),
                _ => {
                    // a native IPv6 address that merely ENDS like a mapped one (…:ffff:a.b.c.d with other bits set above):
                    // it is not an IPv4 client and no IPv4 prefix contains it
                    let base4 = *r.pick(pool4);
                    let a4 = jitter4(r, base4) as u128;
                    let upper = match r.below(3) {
                        0 => a & !0xffff_ffff_ffffu128,
                        1 => 1u128 << (48 + r.below(80)),
                        _ => 0x2001_0db8u128 << 96,
                    };
                    let upper = if upper == 0 { 1u128 << 100 } else { upper };
                    upper | 0xffff_0000_0000u128 | a4
                }
            })
        }
    }
}

fn netaddr(c: &Client) -> erbium_net::addr::NetAddr {
    match c {
        Client::V4(a) => Ipv4Addr::from(*a).with_port(40_000),
        Client::V6(a) => Ipv6Addr::from(*a).with_port(40_000),
        Client::Mapped(a) => Ipv6Addr::from(0xffff_0000_0000u128 | *a as u128).with_port(40_000),
        Client::Unix => erbium_net::addr::UnixAddr::new("/run/verif-client").expect("unix addr").to_net_addr(),
    }
}

fn perm_type(p: Perm) -> acl::PermissionType {
    match p {
        Perm::Dns => acl::PermissionType::DnsRecursion,
        Perm::Http => acl::PermissionType::Http,
        Perm::Metrics => acl::PermissionType::HttpMetrics,
        Perm::Leases => acl::PermissionType::HttpLeases,
    }
}

pub fn rules_to_json(rules: &[Rule]) -> Value {
    json!(rules.iter().map(|r| json!({
        "match-subnets": r.subnets.as_ref().map(|s| s.iter().map(|p| p.text()).collect::<Vec<_>>()),
        "match-unix": r.unix, "apply-access": r.access})).collect::<Vec<_>>())
}

fn case(leg: &mut Leg, r: &mut Rng, case_seed: u64) {
    let pool4: Vec<u32> = vec![
        u32::from(Ipv4Addr::new(192, 0, 2, 53)),
        u32::from(Ipv4Addr::new(10, 1, 2, 3)),
        u32::from(Ipv4Addr::new(127, 0, 0, 1)),
        u32::from(Ipv4Addr::new(172, 16, 200, 129)),
        r.u32(),
    ];
    let pool6: Vec<u128> = vec![
        u128::from("2001:db8::53".parse::<Ipv6Addr>().unwrap()),
        u128::from("fd00:1:2:3::9".parse::<Ipv6Addr>().unwrap()),
        1,
        u128::from("fe80::1".parse::<Ipv6Addr>().unwrap()),
        (r.next() as u128) << 64 | r.next() as u128,
    ];
    // either explicit acls, or the documented defaults derived from `addresses`
    let use_default = r.chance(1, 5);
    let (yaml, rules) = if use_default {
        let k = r.range(0, 3);
        let addrs: Vec<Pfx> = (0..k).map(|_| gen_pfx(r, &pool4, &pool6)).collect();
        // `addresses` must be loadable: keep prefix lengths the DHCP side can digest (C19's subject otherwise)
        let addrs: Vec<Pfx> = addrs
            .into_iter()
            .map(|p| match p {
                Pfx::V4(a, l) => Pfx::V4(a, l.clamp(8, 30)),
                o => o,
            })
            .collect();
        let yaml = format!("---\naddresses: [{}]\n", addrs.iter().map(|p| format!("'{}'", p.text())).collect::<Vec<_>>().join(", "));
        let rules = vec![
            Rule { subnets: Some(addrs), unix: None, access: vec!["dns-recursion", "http-ro"] },
            Rule { subnets: Some(vec![Pfx::V4(0x7f00_0000, 8), Pfx::V6(1, 128)]), unix: None, access: vec!["dns-recursion", "http-ro"] },
            Rule { subnets: None, unix: Some(true), access: vec!["http-ro"] },
        ];
        (yaml, rules)
    } else {
        let rules = gen_rules(r, &pool4, &pool6);
        (format!("---\n{}", rules_yaml(&rules)), rules)
    };
    let replay = json!({"engine": "c08", "case_seed": case_seed});
    let conf = match guard::guard(|| erbium::config::verif_load_config_from_string(&yaml)) {
        Err(p) => {
            leg.count("loader_panicked", 1);
            let _ = p;
            return; // C19's subject
        }
        Ok(Err(e)) => {
            leg.count("config_rejected", 1);
            if leg.wants_sample() {
                leg.sample(json!({"rejected": e.to_string(), "yaml": yaml}));
            }
            return;
        }
        Ok(Ok(c)) => c,
    };
    if leg.wants_sample() {
        leg.sample(json!({"acl_yaml": yaml}));
    }
    let c = conf.try_read().expect("lock");
    let host_bits = rules.iter().any(|r| r.subnets.as_ref().map(|s| s.iter().any(|p| p.host_bits())).unwrap_or(false));
    for _ in 0..24 {
        let client = gen_client(r, &pool4, &pool6);
        for perm in [Perm::Dns, Perm::Http, Perm::Metrics, Perm::Leases] {
            leg.eval();
            let want = model(&rules, &client, perm);
            let attr = acl::Attributes { addr: netaddr(&client) };
            let got = guard::guard(|| acl::require_permission(&c.acls, &attr, perm_type(perm)).is_ok());
            let kind = match &client {
                Client::V4(_) => "v4",
                Client::V6(_) => "v6",
                Client::Mapped(_) => "mapped",
                Client::Unix => "unix",
            };
            match (want, got) {
                (_, Err(p)) => leg.violation(format!("C08/panic/{}", p.class()), format!("{} at {} for client {} rules {}", p.message, p.location, client.text(), rules_to_json(&rules)), replay.clone()),
                (None, _) => leg.count("unconstrained_decisions", 1),
                (Some(w), Ok(g)) => {
                    leg.class(format!("{}|{:?}|{}|rules{}|default{}|hostbits{}", kind, perm, w, rules.len().min(4), use_default, host_bits));
                    if w != g {
                        // did the deciding rule match through a prefix written with host bits?
                        let first = model_idx(&rules, &client, perm).1;
                        let hb = first.map(|i| rules[i].subnets.as_ref().map(|s| s.iter().any(|p| p.host_bits() && contains(p, &client) == Some(true)) && !s.iter().any(|p| !p.host_bits() && contains(p, &client) == Some(true))).unwrap_or(false)).unwrap_or(false);
                        let sig = if hb {
                            "prefix-written-with-host-bits-matches-nothing".to_string()
                        } else if w && !g {
                            format!("refused-although-first-match-grants/{}", kind)
                        } else {
                            format!("granted-although-first-match-refuses/{}", kind)
                        };
                        leg.violation(
                            format!("C08/{}", sig),
                            format!("client {} op {:?}: model {} erbium {}; rules {}", client.text(), perm, w, g, rules_to_json(&rules)),
                            json!({"engine": "c08", "case_seed": case_seed, "client": client.text(), "perm": format!("{:?}", perm), "yaml": yaml}),
                        );
                    }
                }
            }
        }
    }
}

pub fn run(seed: u64, thorough: bool, shards: u64) -> Leg {
    let mut total = Leg::new(
        "c08-acl-inproc",
        "C08",
        "ACL lists (0..6 rules; subnet lists over IPv4/IPv6 prefixes of every length with and without host bits; match-unix true/false/absent; every access subset) and the documented default ACLs derived from `addresses`, loaded by the real loader; clients IPv4 / IPv6 / IPv4-mapped / unix near and far from the prefixes; all four operations compared with an independent first-match model; distinct = (client kind, operation, decision, rule count, default/explicit, host bits present)",
    );
    total.floor = 2_000;
    let n: u64 = if thorough { 60_000 } else { 400 };
    let mut handles = Vec::new();
    for shard in 0..shards {
        let mut leg = total.child();
        handles.push(std::thread::spawn(move || {
            for i in 0..n / shards {
                let case_seed = seed.wrapping_mul(1_000_033).wrapping_add(shard * 9_000_011 + i);
                let mut r = Rng::new(case_seed);
                case(&mut leg, &mut r, case_seed);
            }
            leg
        }));
    }
    for h in handles {
        match h.join() {
            Ok(l) => total.merge(l),
            Err(_) => total.inconclusive("shard thread died"),
        }
    }
    total
}

pub fn replay(v: &Value) -> Leg {
    let mut leg = Leg::new("c08-replay", "C08", "replay of one recorded case");
    let cs = v["case_seed"].as_u64().unwrap_or(0);
    let mut r = Rng::new(cs);
    case(&mut leg, &mut r, cs);
    leg
}

pub fn ip_of(c: &Client) -> Option<IpAddr> {
    match c {
        Client::V4(a) => Some(IpAddr::V4(Ipv4Addr::from(*a))),
        Client::V6(a) => Some(IpAddr::V6(Ipv6Addr::from(*a))),
        Client::Mapped(a) => Some(IpAddr::V6(Ipv6Addr::from(0xffff_0000_0000u128 | *a as u128))),
        Client::Unix => None,
    }
}
