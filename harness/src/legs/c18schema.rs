//! C18, schema clauses: a lease database written by an older schema version (or by the current
//! one) opens with every lease preserved and then serves like an uninterrupted server; a database
//! from a newer, unknown schema is refused and left exactly as it was.
//!
//! The databases are written by this harness with plain SQL (rusqlite), never by erbium, so the
//! "before" picture is independent of the code under test.

use crate::guard;
use crate::report::{Leg, hex};
use crate::rng::Rng;
use erbium::dhcp::pool;
use serde_json::json;
use std::collections::BTreeMap;

#[derive(Clone, Debug, PartialEq, Eq, PartialOrd, Ord)]
struct Row {
    address: String,
    chaddr: Option<Vec<u8>>,
    clientid: Vec<u8>,
    start: u32,
    expiry: u32,
    options: Option<Vec<u8>>,
}

#[derive(Clone, Copy, Debug, PartialEq, Eq)]
enum Variant {
    /// the original schema: `leases` without `options`, no `schema_version` table
    UnversionedV0,
    /// `leases` without `options`, `schema_version` says pool = 0
    VersionedV0,
    /// the current schema written by hand: `leases` with `options`, pool = 1
    V1,
    /// the current schema plus a row of another module in `schema_version`
    V1ForeignKey,
    /// pool = N > 1 (a future erbium): must be refused, not modified
    Newer(i64),
}

fn now() -> u32 {
    std::time::SystemTime::now().duration_since(std::time::UNIX_EPOCH).map(|d| d.as_secs() as u32).unwrap_or(0)
}

/// Everything in the file, as text: schema objects and every row of every table.
fn dump(path: &std::path::Path) -> Result<Vec<String>, String> {
    let conn = rusqlite::Connection::open_with_flags(path, rusqlite::OpenFlags::SQLITE_OPEN_READ_ONLY).map_err(|e| e.to_string())?;
    let mut out = Vec::new();
    let mut tables = Vec::new();
    {
        let mut st = conn.prepare("SELECT type, name, COALESCE(sql, '') FROM sqlite_master ORDER BY type, name").map_err(|e| e.to_string())?;
        let rows = st
            .query_map([], |r| Ok((r.get::<_, String>(0)?, r.get::<_, String>(1)?, r.get::<_, String>(2)?)))
            .map_err(|e| e.to_string())?;
        for r in rows {
            let (t, n, s) = r.map_err(|e| e.to_string())?;
            out.push(format!("{} {} {}", t, n, s.split_whitespace().collect::<Vec<_>>().join(" ")));
            if t == "table" {
                tables.push(n);
            }
        }
    }
    for t in tables {
        let mut st = conn.prepare(&format!("SELECT * FROM \"{}\"", t)).map_err(|e| e.to_string())?;
        let n = st.column_count();
        let mut rows = st.query([]).map_err(|e| e.to_string())?;
        let mut lines = Vec::new();
        while let Some(r) = rows.next().map_err(|e| e.to_string())? {
            let mut cells = Vec::new();
            for i in 0..n {
                let v: rusqlite::types::Value = r.get(i).map_err(|e| e.to_string())?;
                cells.push(match v {
                    rusqlite::types::Value::Null => "NULL".to_string(),
                    rusqlite::types::Value::Integer(i) => i.to_string(),
                    rusqlite::types::Value::Real(f) => f.to_string(),
                    rusqlite::types::Value::Text(s) => format!("'{}'", s),
                    rusqlite::types::Value::Blob(b) => format!("x{}", hex(&b)),
                });
            }
            lines.push(format!("{}: {}", t, cells.join(",")));
        }
        lines.sort();
        out.extend(lines);
    }
    Ok(out)
}

/// The lease rows as the property names them (address, client, start, expiry) plus chaddr.
fn read_rows(path: &std::path::Path) -> Result<Vec<Row>, String> {
    let conn = rusqlite::Connection::open_with_flags(path, rusqlite::OpenFlags::SQLITE_OPEN_READ_ONLY).map_err(|e| e.to_string())?;
    let has_options = conn.prepare("SELECT options FROM leases LIMIT 1").is_ok();
    let sql = if has_options {
        "SELECT address, chaddr, clientid, start, expiry, options FROM leases"
    } else {
        "SELECT address, chaddr, clientid, start, expiry, NULL FROM leases"
    };
    let mut st = conn.prepare(sql).map_err(|e| e.to_string())?;
    let rows = st
        .query_map([], |r| {
            Ok(Row { address: r.get(0)?, chaddr: r.get(1)?, clientid: r.get(2)?, start: r.get(3)?, expiry: r.get(4)?, options: r.get(5)? })
        })
        .map_err(|e| e.to_string())?;
    let mut v = Vec::new();
    for r in rows {
        v.push(r.map_err(|e| e.to_string())?);
    }
    v.sort();
    Ok(v)
}

fn pool_version(path: &std::path::Path) -> Option<i64> {
    let conn = rusqlite::Connection::open_with_flags(path, rusqlite::OpenFlags::SQLITE_OPEN_READ_ONLY).ok()?;
    conn.query_row("SELECT version FROM schema_version WHERE key = 'pool'", [], |r| r.get(0)).ok()
}

fn write_db(path: &std::path::Path, variant: Variant, rows: &[Row]) -> Result<(), String> {
    for ext in ["sqlite", "sqlite-journal", "sqlite-wal", "sqlite-shm"] {
        let _ = std::fs::remove_file(path.with_extension(ext));
    }
    let conn = rusqlite::Connection::open(path).map_err(|e| e.to_string())?;
    let with_options = !matches!(variant, Variant::UnversionedV0 | Variant::VersionedV0);
    let extra = if matches!(variant, Variant::Newer(_)) { ", vendor_class BLOB" } else { "" };
    conn.execute(
        &format!(
            "CREATE TABLE leases (address TEXT NOT NULL, chaddr BLOB, clientid BLOB, start INTEGER NOT NULL, expiry INTEGER NOT NULL{}{}, PRIMARY KEY (address))",
            if with_options { ", options BLOB" } else { "" },
            extra
        ),
        [],
    )
    .map_err(|e| e.to_string())?;
    if variant != Variant::UnversionedV0 {
        conn.execute("CREATE TABLE schema_version (key TEXT NOT NULL, version INTEGER NOT NULL, PRIMARY KEY (key))", []).map_err(|e| e.to_string())?;
        let v: i64 = match variant {
            Variant::VersionedV0 => 0,
            Variant::V1 | Variant::V1ForeignKey => 1,
            Variant::Newer(n) => n,
            Variant::UnversionedV0 => unreachable!(),
        };
        conn.execute("INSERT INTO schema_version (key, version) VALUES ('pool', ?1)", rusqlite::params![v]).map_err(|e| e.to_string())?;
        if variant == Variant::V1ForeignKey {
            conn.execute("INSERT INTO schema_version (key, version) VALUES ('another-module', 7)", []).map_err(|e| e.to_string())?;
        }
    }
    for r in rows {
        if with_options {
            conn.execute(
                "INSERT INTO leases (address, chaddr, clientid, start, expiry, options) VALUES (?1, ?2, ?3, ?4, ?5, ?6)",
                rusqlite::params![r.address, r.chaddr, r.clientid, r.start, r.expiry, r.options],
            )
            .map_err(|e| e.to_string())?;
        } else {
            conn.execute(
                "INSERT INTO leases (address, chaddr, clientid, start, expiry) VALUES (?1, ?2, ?3, ?4, ?5)",
                rusqlite::params![r.address, r.chaddr, r.clientid, r.start, r.expiry],
            )
            .map_err(|e| e.to_string())?;
        }
    }
    conn.close().map_err(|e| e.1.to_string())
}

/// The schema version the tree under test writes for a brand-new database (1 on the pinned tree).  "Newer" and "recorded
/// after a successful open" are relative to it: a tree that knows version 2 is entitled to open a version-2 file.
fn current_version(scratch: &std::path::Path, tag: &str) -> Option<i64> {
    let path = scratch.join(format!("{}-fresh.sqlite", tag));
    let _ = std::fs::remove_file(&path);
    let v = match guard::guard(|| pool::Pool::verif_open(&path).map(|_| ())) {
        Ok(Ok(())) => pool_version(&path),
        _ => None,
    };
    for ext in ["sqlite", "sqlite-journal", "sqlite-wal", "sqlite-shm"] {
        let _ = std::fs::remove_file(path.with_extension(ext));
    }
    v
}

fn case(leg: &mut Leg, r: &mut Rng, case_seed: u64, scratch: &std::path::Path, tag: &str, cur: i64) {
    leg.eval();
    let replay = json!({"engine": "c18-schema", "case_seed": case_seed});
    let variant = match r.below(8) {
        0 | 1 => Variant::UnversionedV0,
        2 | 3 => Variant::VersionedV0,
        4 => Variant::V1,
        5 => Variant::V1ForeignKey,
        _ => Variant::Newer(*r.pick(&[cur + 1, cur + 2, cur + 6, 100 + cur, 65_536, i64::from(u32::MAX), i64::MAX])),
    };
    let with_options = matches!(variant, Variant::V1 | Variant::V1ForeignKey | Variant::Newer(_));
    let t = now();
    let nrows = match r.below(5) {
        0 => 0,
        1 => 1,
        _ => r.range(2, 40) as usize,
    };
    let net = [10u8, r.u8(), r.u8()];
    let mut used = std::collections::BTreeSet::new();
    let mut rows: Vec<Row> = Vec::new();
    for _ in 0..nrows {
        let host = 1 + r.below(250) as u8;
        if !used.insert(host) {
            continue;
        }
        let start = match r.below(3) {
            0 => t.saturating_sub(r.range(0, 100_000) as u32),
            1 => t,
            _ => t.saturating_sub(r.range(0, 600) as u32),
        };
        let expiry = match r.below(5) {
            0 => t.saturating_sub(r.range(1, 50_000) as u32), // long gone
            1 => t.saturating_sub(1),
            2 => t + r.range(3_600, 86_400) as u32,
            3 => u32::MAX - r.below(3) as u32,
            _ => t + r.range(600, 7_200) as u32,
        };
        rows.push(Row {
            address: format!("{}.{}.{}.{}", net[0], net[1], net[2], host),
            chaddr: if r.chance(1, 3) { None } else { Some(r.bytes(6)) },
            clientid: match r.below(6) {
                0 => r.bytes(1),
                1 => r.bytes(255),
                2 => vec![0u8; 7],
                _ => r.bytes_in(2, 20),
            },
            start,
            expiry,
            options: if with_options && r.bool() { Some(r.bytes_in(0, 60)) } else { None },
        });
    }
    rows.sort();
    let path = scratch.join(format!("{}-schema.sqlite", tag));
    if let Err(e) = write_db(&path, variant, &rows) {
        leg.inconclusive(format!("could not write the starting database: {}", e));
        return;
    }
    let before_dump = dump(&path).unwrap_or_default();
    let vname = match variant {
        Variant::UnversionedV0 => "v0-unversioned".to_string(),
        Variant::VersionedV0 => "v0-versioned".to_string(),
        Variant::V1 => "v1".to_string(),
        Variant::V1ForeignKey => "v1-foreign-key".to_string(),
        Variant::Newer(_) => "newer".to_string(),
    };
    leg.class(format!("{}|rows{}", vname, rows.len().min(3)));
    leg.count(&format!("databases_{}", vname), 1);
    leg.count("rows_written", rows.len() as u64);
    let desc = format!("{:?} with {} rows", variant, rows.len());

    // ---- open with erbium
    let opened = guard::guard(|| pool::Pool::verif_open(&path).map_err(|e| e.to_string()));
    let opened = match opened {
        Err(p) => {
            leg.violation(format!("C18/schema/open-panics/{}", p.class()), format!("{} at {} opening {}", p.message, p.location, desc), replay);
            return;
        }
        Ok(x) => x,
    };
    if let Variant::Newer(n) = variant {
        let refused = opened.is_err();
        drop(opened);
        if !refused {
            leg.violation("C18/schema/newer-version-accepted", format!("a database whose schema_version says pool = {} was opened instead of refused", n), replay.clone());
        }
        match dump(&path) {
            Ok(after) if after == before_dump => {}
            Ok(after) => {
                let diff: Vec<&String> = after.iter().filter(|l| !before_dump.contains(l)).chain(before_dump.iter().filter(|l| !after.contains(l))).take(4).collect();
                leg.violation("C18/schema/newer-version-modified", format!("database with pool = {} differs after the open attempt: {:?}", n, diff), replay);
            }
            Err(e) => leg.violation("C18/schema/newer-version-unreadable-afterwards", e, replay),
        }
        return;
    }
    let mut p = match opened {
        Ok(p) => p,
        Err(e) => {
            leg.violation(format!("C18/schema/older-database-refused/{}", vname), format!("{}: {}", desc, e), replay);
            return;
        }
    };
    // ---- every lease preserved, as erbium reports it and as the file holds it
    let listed = guard::guard(|| p.get_leases().map_err(|e| e.to_string()));
    match listed {
        Err(pn) => {
            leg.violation(format!("C18/schema/listing-panics/{}", pn.class()), format!("{} at {}", pn.message, pn.location), replay);
            return;
        }
        Ok(Err(e)) => {
            leg.violation("C18/schema/listing-fails-after-open", format!("{}: {}", desc, e), replay);
            return;
        }
        Ok(Ok(l)) => {
            let mut got: Vec<(String, Vec<u8>, u32, u32)> = l.iter().map(|x| (x.ip.to_string(), x.client_id.clone(), x.start, x.expire)).collect();
            got.sort();
            let mut want: Vec<(String, Vec<u8>, u32, u32)> = rows.iter().map(|x| (x.address.clone(), x.clientid.clone(), x.start, x.expiry)).collect();
            want.sort();
            if got != want {
                let missing = want.iter().filter(|w| !got.contains(w)).count();
                let extra = got.iter().filter(|g| !want.contains(g)).count();
                leg.violation(
                    format!("C18/schema/leases-differ-after-open/{}", vname),
                    format!("{}: {} rows missing or changed, {} unexpected, of {} written", desc, missing, extra, want.len()),
                    replay.clone(),
                );
            }
        }
    }
    drop(p);
    match read_rows(&path) {
        Ok(after) => {
            let strip = |v: &[Row]| -> Vec<Row> { v.iter().map(|x| Row { options: x.options.clone().filter(|o| !o.is_empty()), ..x.clone() }).collect() };
            if strip(&after) != strip(&rows) {
                leg.violation(format!("C18/schema/rows-differ-after-open/{}", vname), format!("{}: file holds {} rows afterwards, {} written", desc, after.len(), rows.len()), replay.clone());
            }
        }
        Err(e) => leg.violation("C18/schema/file-unreadable-after-open", e, replay.clone()),
    }
    if pool_version(&path) != Some(cur) {
        leg.violation("C18/schema/version-not-recorded", format!("{}: schema_version says pool = {:?} after a successful open, a new database gets {}", desc, pool_version(&path), cur), replay.clone());
    }
    // ---- open again (an upgrade must not be attempted twice), then serve
    let mut p = match guard::guard(|| pool::Pool::verif_open(&path).map_err(|e| e.to_string())) {
        Ok(Ok(p)) => p,
        Ok(Err(e)) => {
            leg.violation(format!("C18/schema/second-open-fails/{}", vname), format!("{}: {}", desc, e), replay);
            return;
        }
        Err(pn) => {
            leg.violation(format!("C18/schema/open-panics/{}", pn.class()), format!("{} at {} on the second open", pn.message, pn.location), replay);
            return;
        }
    };
    // an uninterrupted server gives a client with a running lease that same address again
    let t2 = now();
    let mut addrs: pool::PoolAddresses = Default::default();
    for r0 in &rows {
        addrs.insert(r0.address.parse().expect("address"));
    }
    for h in 251..=254u8 {
        addrs.insert(std::net::Ipv4Addr::new(net[0], net[1], net[2], h));
    }
    let mut by_client: BTreeMap<Vec<u8>, Vec<&Row>> = BTreeMap::new();
    for r0 in &rows {
        by_client.entry(r0.clientid.clone()).or_default().push(r0);
    }
    let mut served = 0u64;
    for (cid, held) in by_client.iter().take(6) {
        let live: Vec<&&Row> = held.iter().filter(|x| x.expiry > t2.saturating_add(2)).collect();
        if live.is_empty() {
            continue;
        }
        let res = guard::guard(|| {
            p.allocate_address(cid, None, &addrs, std::time::Duration::from_secs(300), std::time::Duration::from_secs(86_400), b"\xff").map_err(|e| e.to_string())
        });
        served += 1;
        match res {
            Err(pn) => leg.violation(format!("C18/schema/serving-panics/{}", pn.class()), format!("{} at {}", pn.message, pn.location), replay.clone()),
            Ok(Err(e)) => leg.violation(
                format!("C18/schema/holder-refused-after-open/{}", vname),
                format!("{}: client {} holds {} (expiry in {} s) but is refused: {}", desc, hex(cid), live[0].address, live[0].expiry - t2, e),
                replay.clone(),
            ),
            Ok(Ok(l)) => {
                if !live.iter().any(|x| x.address == l.ip.to_string()) {
                    leg.violation(
                        format!("C18/schema/holder-gets-another-address-after-open/{}", vname),
                        format!("{}: client {} holds {:?} unexpired but is given {}", desc, hex(cid), live.iter().map(|x| x.address.clone()).collect::<Vec<_>>(), l.ip),
                        replay.clone(),
                    );
                }
            }
        }
    }
    leg.count("holders_served_after_open", served);
    // a newcomer never receives an address whose stored lease is still running
    let newcomer = b"\x01newcomer-after-upgrade".to_vec();
    if !by_client.contains_key(&newcomer) {
        let res = guard::guard(|| {
            p.allocate_address(&newcomer, None, &addrs, std::time::Duration::from_secs(300), std::time::Duration::from_secs(86_400), b"\xff").map_err(|e| e.to_string())
        });
        if let Ok(Ok(l)) = res {
            let ip = l.ip.to_string();
            if let Some(owner) = rows.iter().find(|x| x.address == ip && x.expiry > now().saturating_add(2)) {
                leg.violation(
                    format!("C18/schema/running-lease-given-away-after-open/{}", vname),
                    format!("{}: {} is held by {} for another {} s but was given to a new client", desc, ip, hex(&owner.clientid), owner.expiry - t2),
                    replay.clone(),
                );
            }
            leg.count("newcomers_served_after_open", 1);
        }
    }
    drop(p);
    let _ = std::fs::remove_file(&path);
    let _ = std::fs::remove_file(path.with_extension("sqlite-journal"));
}

pub fn run(seed: u64, thorough: bool, shards: u64, scratch: &std::path::Path) -> Leg {
    let mut total = Leg::new(
        "c18-schema-inproc",
        "C18",
        "lease databases written by the harness in plain SQL (original unversioned schema, version 0, version 1, version 1 with another module's row, versions newer than the one a brand-new database gets) holding 0..40 arbitrary rows (expired and running, extreme timestamps, 1..255-octet client identifiers, NULL hardware addresses), opened through Pool::verif_open: older and current databases must open, list exactly the written leases (address, client, start, expiry) through get_leases and in the file, record the version a brand-new database gets, open a second time, give every holder of a running lease that address again and never give a running lease to a newcomer; newer databases must be refused and a full dump of the file (schema objects and all rows) must be identical afterwards; distinct = (schema variant, row count class)",
    );
    total.floor = 200;
    let n: u64 = if thorough { 40_000 } else { 1_600 };
    let mut handles = Vec::new();
    for shard in 0..shards {
        let mut leg = total.child();
        let scratch = scratch.to_path_buf();
        handles.push(std::thread::spawn(move || {
            let tag = format!("s{}", shard);
            let cur = match current_version(&scratch, &tag) {
                Some(v) => v,
                None => {
                    leg.inconclusive("cannot create a fresh lease database to learn the current schema version");
                    return leg;
                }
            };
            leg.max("schema_version_of_a_new_database", cur as u64);
            for i in 0..n / shards {
                let case_seed = seed.wrapping_mul(1_000_003).wrapping_add(shard * 9_000_011 + i);
                let mut r = Rng::new(case_seed);
                case(&mut leg, &mut r, case_seed, &scratch, &tag, cur);
            }
            leg
        }));
    }
    for h in handles {
        match h.join() {
            Ok(l) => total.merge(l),
            Err(_) => total.inconclusive("shard thread died"),
        }
    }
    total
}

pub fn replay(v: &serde_json::Value, scratch: &std::path::Path) -> Leg {
    let mut leg = Leg::new("c18-schema-replay", "C18", "replay of one recorded case");
    let cs = v["case_seed"].as_u64().unwrap_or(0);
    let mut r = Rng::new(cs);
    let cur = current_version(scratch, "replay").unwrap_or(1);
    case(&mut leg, &mut r, cs, scratch, "replay", cur);
    leg
}
