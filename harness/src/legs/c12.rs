//! C12: DHCP encode/decode round trip, Ethernet/IPv4/UDP frame validity, broadcast flag.

use crate::corpus;
use crate::guard;
use crate::mutate;
use crate::refcodec::dhcp as rd;
use crate::refcodec::frame;
use crate::report::{Leg, hex};
use crate::rng::Rng;
use erbium::dhcp::dhcppkt;
use serde_json::json;
use std::net::Ipv4Addr;

pub fn gen_msg(r: &mut Rng) -> rd::Msg {
    let hlen = match r.below(6) {
        0 => 0,
        1 => 16,
        2 => r.range(0, 16) as u8,
        _ => 6,
    };
    let nonul = |r: &mut Rng, max: usize| -> Vec<u8> {
        let l = match r.below(4) {
            0 => 0,
            1 => max,
            _ => r.usize(max + 1),
        };
        (0..l).map(|_| r.u8() | 1).collect()
    };
    let mut m = rd::Msg {
        op: if r.chance(1, 5) { r.u8() } else { 1 + r.below(2) as u8 },
        htype: if r.chance(1, 5) { r.u8() } else { 1 },
        hlen,
        hops: r.u8(),
        xid: r.u32_edgy(),
        secs: r.u16(),
        flags: *r.pick(&[0u16, 0x8000, 0x0080, 0xffff, 0x7fff, 1]),
        ciaddr: Ipv4Addr::from(r.u32_edgy()),
        yiaddr: Ipv4Addr::from(r.u32_edgy()),
        siaddr: Ipv4Addr::from(r.u32_edgy()),
        giaddr: Ipv4Addr::from(r.u32_edgy()),
        chaddr: r.bytes(hlen as usize),
        sname: nonul(r, 64),
        file: nonul(r, 128),
        options: vec![],
    };
    let nopts = r.range(0, 12);
    for _ in 0..nopts {
        let code = match r.below(4) {
            0 => r.range(1, 254) as u8,
            _ => *r.pick(&[1u8, 3, 6, 12, 15, 43, 50, 51, 53, 54, 55, 60, 61, 77, 81, 82, 119, 121, 125, 224, 254]),
        };
        if code == 52 || m.options.iter().any(|(c, _)| *c == code) {
            continue;
        }
        let l = match r.below(12) {
            0 => 0,
            1 => 255,
            2 => 256,
            3 => 510,
            4 => 511,
            5 => r.range(256, 1500) as usize,
            _ => r.range(1, 40) as usize,
        };
        m.options.push((code, r.bytes(l)));
    }
    m
}

fn canon(m: &rd::Msg) -> rd::Msg {
    let mut c = m.clone();
    c.options.sort();
    c
}

fn first_difference(a: &rd::Msg, b: &rd::Msg) -> (String, String) {
    macro_rules! f {
        ($n:ident) => {
            if a.$n != b.$n {
                return (format!("header-{}", stringify!($n)), format!("{:?} != {:?}", a.$n, b.$n));
            }
        };
    }
    f!(op);
    f!(htype);
    f!(hlen);
    f!(hops);
    f!(xid);
    f!(secs);
    f!(flags);
    f!(ciaddr);
    f!(yiaddr);
    f!(siaddr);
    f!(giaddr);
    f!(chaddr);
    f!(sname);
    f!(file);
    for (c, v) in &a.options {
        match b.opt(*c) {
            None => return ("option-lost".into(), format!("option {} ({} octets) missing after round trip", c, v.len())),
            Some(w) if w != v.as_slice() => {
                let class = if v.len() > 255 { "option-longer-than-255-octets" } else if v.is_empty() { "zero-length-option" } else { "option-value" };
                return (class.into(), format!("option {}: sent {} octets, read back {} octets", c, v.len(), w.len()));
            }
            _ => {}
        }
    }
    for (c, v) in &b.options {
        if a.opt(*c).is_none() {
            let any_long = a.options.iter().any(|(_, v)| v.len() > 255);
            return (if any_long { "option-longer-than-255-octets".into() } else { "option-invented".into() }, format!("option {} ({} octets) appeared", c, v.len()));
        }
    }
    ("unknown".into(), String::new())
}

/// ref message -> wire (reference encoder) -> erbium decode -> erbium encode -> reference decode.
fn roundtrip_structured(leg: &mut Leg, m: &rd::Msg) {
    leg.eval();
    let b1 = rd::encode(m);
    let maxlen = m.options.iter().map(|(_, v)| v.len()).max().unwrap_or(0);
    leg.class(format!(
        "structured|hlen{}|opts{}|max{}|zero{}",
        match m.hlen { 0 => "0", 6 => "6", 16 => "16", _ => "x" },
        m.options.len().min(6),
        match maxlen { 0 => "0", 1..=255 => "s", 256..=510 => "m", _ => "l" },
        m.options.iter().any(|(_, v)| v.is_empty())
    ));
    let res = guard::timed(&b1, || {
        let d1 = dhcppkt::parse(&b1).map_err(|e| format!("erbium rejects a canonical message: {:?}", e))?;
        let b2 = d1.serialise();
        let d2 = dhcppkt::parse(&b2).map_err(|e| format!("erbium cannot decode its own encoding: {:?}", e));
        Ok::<_, String>((d1, b2, d2))
    });
    let replay = json!({"engine": "c12", "kind": "structured", "wire_hex": hex(&b1)});
    match res {
        Err(p) => leg.violation(format!("C12/panic/{}", p.class()), format!("{} at {}", p.message, p.location), replay),
        Ok(Err(e)) => leg.violation("C12/canonical-message-rejected", e, replay),
        Ok(Ok((d1, b2, d2))) => {
            match rd::decode(&b2, true, false) {
                Err(e) => {
                    let long = m.options.iter().any(|(_, v)| v.len() > 255);
                    leg.violation(
                        if long { "C12/roundtrip/option-longer-than-255-octets" } else { "C12/encoding-not-decodable" },
                        format!("reference decoder rejects erbium's encoding: {}", e),
                        replay,
                    )
                }
                Ok(m2) => {
                    if canon(&m2) != canon(m) {
                        let (mut class, detail) = first_difference(m, &m2);
                        if m.options.iter().any(|(_, v)| v.len() > 255) {
                            // one over-long option garbles everything behind it
                            class = "option-longer-than-255-octets".into();
                        }
                        leg.violation(format!("C12/roundtrip/{}", class), detail, replay);
                    } else {
                        match d2 {
                            Err(e) => leg.violation("C12/own-encoding-rejected", e, replay),
                            Ok(d2) => {
                                if d2 != d1 {
                                    leg.violation("C12/roundtrip/self-decode-differs", format!("{:?} != {:?}", d1, d2), replay);
                                }
                            }
                        }
                    }
                }
            }
        }
    }
}

/// arbitrary bytes accepted by erbium -> encode -> decode must give the same message.
fn roundtrip_bytes(leg: &mut Leg, b: &[u8], how: &str) {
    leg.eval();
    let res = guard::timed(b, || {
        let d1 = match dhcppkt::parse(b) {
            Ok(d) => d,
            Err(_) => return None,
        };
        let b2 = d1.serialise();
        let d2 = dhcppkt::parse(&b2);
        Some((d1, b2, d2))
    });
    let replay = json!({"engine": "c12", "kind": "bytes", "wire_hex": hex(b), "how": how});
    match res {
        Err(p) => leg.violation(format!("C12/panic/{}", p.class()), format!("{} at {}", p.message, p.location), replay),
        Ok(None) => {
            leg.count("bytes_rejected_by_decoder", 1);
        }
        Ok(Some((d1, _b2, d2))) => {
            leg.count("bytes_accepted_by_decoder", 1);
            let long = d1.options.other.values().any(|v| v.len() > 255);
            leg.class(format!("bytes|{}|opts{}|long{}", how.split('@').next().unwrap_or(""), d1.options.other.len().min(5), long));
            match d2 {
                Err(e) => leg.violation(
                    if long { "C12/roundtrip/option-longer-than-255-octets".to_string() } else { format!("C12/own-encoding-rejected/{:?}", e) },
                    format!("decode(encode(m)) failed: {:?}", e),
                    replay,
                ),
                Ok(d2) => {
                    if d2 != d1 {
                        leg.violation(
                            if long { "C12/roundtrip/option-longer-than-255-octets" } else { "C12/roundtrip/self-decode-differs" },
                            format!("decoded {:?}\nre-decoded {:?}", d1, d2),
                            replay,
                        );
                    }
                }
            }
        }
    }
}

fn check_frame(leg: &mut Leg, r: &mut Rng, plen: usize) {
    use erbium_net::packet::{Fragment, Tail};
    leg.eval();
    let payload = r.bytes(plen);
    let src = Ipv4Addr::from(r.u32_edgy());
    let dst = if r.chance(1, 4) { Ipv4Addr::BROADCAST } else { Ipv4Addr::from(r.u32_edgy()) };
    let sport = *r.pick(&[67u16, 68, 0, 65535, 1]);
    let dport = *r.pick(&[68u16, 67, 0, 65535, 1024]);
    let mut smac = [0u8; 6];
    let mut dmac = [0u8; 6];
    for i in 0..6 {
        smac[i] = r.u8();
        dmac[i] = if r.chance(1, 4) { 0xff } else { r.u8() };
    }
    // one frame in 65 536 has a UDP checksum that computes to zero (sent as 0xffff, RFC 768): make that one frame in eight by
    // choosing the last two payload octets accordingly
    let mut payload = payload;
    let mut forced_zero = false;
    if plen >= 2 && plen % 2 == 0 && r.chance(1, 8) {
        let n = payload.len();
        payload[n - 2] = 0;
        payload[n - 1] = 0;
        let udp_len = (8 + n) as u32;
        let mut sum: u32 = 0;
        for w in [u32::from(src) >> 16, u32::from(src) & 0xffff, u32::from(dst) >> 16, u32::from(dst) & 0xffff, 17, udp_len, sport as u32, dport as u32, udp_len] {
            sum += w;
        }
        for c in payload.chunks(2) {
            sum += ((c[0] as u32) << 8) | c[1] as u32;
        }
        while sum > 0xffff {
            sum = (sum & 0xffff) + (sum >> 16);
        }
        let w = 0xffff - sum;
        payload[n - 2] = (w >> 8) as u8;
        payload[n - 1] = w as u8;
        forced_zero = true;
    }
    // RFC 1071 lets an implementation add 16-, 32- or 64-bit words and defer the carries; the classic mistake is a fold that
    // is done once where the folded value carries again.  Random data puts a sum on that boundary once in 2^16 (16-bit words)
    // or 2^32 (32-bit words) frames, so one frame in six is put there: the last two words of the payload (UDP checksum) or the
    // addresses (IPv4 header checksum) are chosen so that (carries + low part) of the deferred sum is within 2 of a power of two
    let (mut src, mut dst) = (src, dst);
    let mut carry_mode = "";
    if !forced_zero && r.chance(1, 6) {
        let w_bits: u32 = if r.bool() { 16 } else { 32 };
        let wb = (w_bits / 8) as usize;
        let d: i128 = *r.pick(&[-1i128, 0, 0, 0, 1, 2]);
        let words = |b: &[u8]| -> u128 { b.chunks(wb).map(|c| c.iter().fold(0u128, |a, x| (a << 8) | *x as u128) << (8 * (wb - c.len()))).sum() };
        let modulus: u128 = 1u128 << w_bits;
        let target = |t: u128| -> Option<u128> {
            // smallest total G >= t with carries(G) + low(G) = 2^W + d after crossing one more multiple of 2^W
            let k = (t >> w_bits) + 1;
            let g = (k << w_bits) as i128 + (modulus as i128 - k as i128 + d);
            let need = g - t as i128;
            if need >= 0 && (need as u128) <= 2 * (modulus - 1) { Some(need as u128) } else { None }
        };
        if r.chance(1, 3) {
            // IPv4 header: version/ihl/tos/total length, id/flags, ttl 1/protocol 17/checksum 0, source, destination
            let total_len = (28 + payload.len()) as u16;
            let mut hdr = vec![0x45, 0, (total_len >> 8) as u8, total_len as u8, 0, 0, 0, 0, 1, 17, 0, 0];
            if w_bits == 16 {
                // the upper halves stay random, the lower halves are chosen
                hdr.extend_from_slice(&[src.octets()[0], src.octets()[1], dst.octets()[0], dst.octets()[1]]);
            }
            if let Some(need) = target(words(&hdr)) {
                let a = need.min(modulus - 1);
                let b = need - a;
                if w_bits == 16 {
                    src = Ipv4Addr::new(src.octets()[0], src.octets()[1], (a >> 8) as u8, a as u8);
                    dst = Ipv4Addr::new(dst.octets()[0], dst.octets()[1], (b >> 8) as u8, b as u8);
                } else {
                    src = Ipv4Addr::from(a as u32);
                    dst = Ipv4Addr::from(b as u32);
                }
                carry_mode = if w_bits == 16 { "ipv4-header-16" } else { "ipv4-header-32" };
            }
        } else if payload.len() >= 2 * wb && payload.len() % wb == 0 {
            let n = payload.len();
            for x in &mut payload[n - 2 * wb..] {
                *x = 0;
            }
            let udp_len = (8 + n) as u16;
            let mut stream = Vec::with_capacity(20 + n);
            stream.extend_from_slice(&src.octets());
            stream.extend_from_slice(&dst.octets());
            stream.extend_from_slice(&[0, 17, (udp_len >> 8) as u8, udp_len as u8]);
            stream.extend_from_slice(&sport.to_be_bytes());
            stream.extend_from_slice(&dport.to_be_bytes());
            stream.extend_from_slice(&[(udp_len >> 8) as u8, udp_len as u8, 0, 0]);
            stream.extend_from_slice(&payload);
            if let Some(need) = target(words(&stream)) {
                let a = need.min(modulus - 1);
                let b = need - a;
                for k in 0..wb {
                    payload[n - 2 * wb + k] = (a >> (8 * (wb - 1 - k))) as u8;
                    payload[n - wb + k] = (b >> (8 * (wb - 1 - k))) as u8;
                }
                carry_mode = if w_bits == 16 { "udp-16" } else { "udp-32" };
            }
        }
    }
    let replay = json!({"engine": "c12", "kind": "frame", "payload_len": plen, "src": src.to_string(), "dst": dst.to_string(),
        "sport": sport, "dport": dport, "payload_hex": hex(&payload), "smac": hex(&smac), "dmac": hex(&dmac)});
    let res = guard::timed(&payload, || {
        let s = erbium_net::addr::Inet4Addr::from(std::net::SocketAddrV4::new(src, sport));
        let d = erbium_net::addr::Inet4Addr::from(std::net::SocketAddrV4::new(dst, dport));
        Fragment::new_udp4(s, &smac, d, &dmac, Tail::Payload(&payload)).flatten()
    });
    leg.class(format!("frame|len{}|parity{}", plen / 64, plen % 2));
    match res {
        Err(p) => leg.violation(format!("C12/frame/panic/{}", p.class()), format!("{} at {}", p.message, p.location), replay),
        Ok(f) => match frame::decode_udp4(&f) {
            Err(e) => {
                // the class names what is wrong, not the values: "UDP checksum 0xfffe does not verify (expected 0xfffd)"
                let class: String = e.split(" (expected").next().unwrap_or("").split_whitespace().filter(|t| !t.starts_with("0x")).collect::<Vec<_>>().join(" ");
                let class: String = class.chars().filter(|c| !c.is_ascii_digit()).take(40).collect();
                leg.violation(format!("C12/frame/invalid/{}", class.trim()), e, replay)
            }
            Ok(u) => {
                if u.payload != payload {
                    leg.violation("C12/frame/payload-modified", format!("{} octets in, {} out", payload.len(), u.payload.len()), replay);
                } else if u.src != src || u.dst != dst || u.sport != sport || u.dport != dport {
                    leg.violation("C12/frame/addresses-or-ports-wrong", format!("{}:{} -> {}:{} became {}:{} -> {}:{}", src, sport, dst, dport, u.src, u.sport, u.dst, u.dport), replay);
                } else if u.src_mac != smac || u.dst_mac != dmac {
                    leg.violation("C12/frame/mac-wrong", format!("{:?}", u), replay);
                }
                if u.udp_sum_absent {
                    leg.count("udp_checksum_zero_field", 1);
                }
                if forced_zero {
                    leg.count("frames_whose_udp_checksum_computes_to_zero", 1);
                }
                if !carry_mode.is_empty() {
                    leg.count(&format!("frames_on_a_carry_boundary_{}", carry_mode), 1);
                }
            }
        },
    }
}

pub fn run(seed: u64, thorough: bool, shards: u64) -> Leg {
    let mut total = Leg::new(
        "c12-wire-inproc",
        "C12",
        "canonical DHCP messages (hlen 0..16, NUL-free sname/file, option codes 1..254, value lengths 0..1500 incl. 0, 255, 256, 510, 511) through reference-encode -> erbium decode -> erbium encode -> reference decode; mutated seed bytes accepted by erbium through encode/decode; Fragment::new_udp4 frames for payload lengths 0..1472 decoded with checksum verification (one in eight with a UDP checksum that computes to zero, one in six on a carry boundary of 16- or 32-bit-word summation, RFC 1071); all 65536 flag values for a selecting, a renewing (ciaddr set), a relayed (giaddr set) and an all-fields-set message and for hardware-address lengths 0, 1, 7, 8, 16; distinct = (leg, shape class)",
    );
    total.floor = 5_000;
    // (c) all 65536 flag values: exhaustive, single thread, counted once
    // for a selecting client (ciaddr 0), a renewing one (ciaddr set), a relayed one (giaddr set) and a message with
    // every other header field non-zero: the bit alone decides
    for variant in 0..9u8 {
        let mut base = rd::Msg::default();
        // variants 4..8: hardware address lengths other than an Ethernet MAC's
        if variant >= 4 {
            let hl = [0usize, 1, 7, 8, 16][(variant - 4) as usize];
            base.hlen = hl as u8;
            base.chaddr = (0..hl).map(|k| 0x20 + k as u8).collect();
        }
        base.options = vec![(53, vec![if variant == 0 { 1 } else { 3 }])];
        if variant == 1 || variant == 3 {
            base.ciaddr = std::net::Ipv4Addr::new(10, 1, 2, 3);
        }
        if variant == 2 || variant == 3 {
            base.giaddr = std::net::Ipv4Addr::new(10, 9, 9, 1);
        }
        if variant == 3 {
            base.hops = 3;
            base.secs = 0xffff;
            base.yiaddr = std::net::Ipv4Addr::new(10, 1, 2, 3);
            base.siaddr = std::net::Ipv4Addr::new(10, 1, 2, 1);
        }
        let mut mismatches = 0u64;
        let mut first: Option<u16> = None;
        let mut bytes = rd::encode(&base);
        for f in 0..=u16::MAX {
            bytes[10] = (f >> 8) as u8;
            bytes[11] = f as u8;
            total.eval();
            match guard::guard(|| dhcppkt::parse(&bytes).map(|d| d.get_broadcast_flag())) {
                Ok(Ok(b)) => {
                    if b != (f & 0x8000 != 0) {
                        mismatches += 1;
                        if first.is_none() {
                            first = Some(f);
                        }
                    }
                }
                _ => {
                    mismatches += 1;
                    if first.is_none() {
                        first = Some(f);
                    }
                }
            }
        }
        total.count("flag_values_checked", 65_536);
        total.count("flag_mismatches", mismatches);
        total.class("flags|exhaustive");
        if mismatches > 0 {
            let f = first.unwrap();
            total.violation(
                "C12/broadcast-flag-wrong-bit",
                format!("get_broadcast_flag() disagrees with bit 15 for {} of 65536 flag values (first: {:#06x}; ciaddr {}, giaddr {}, hlen {})", mismatches, f, base.ciaddr, base.giaddr, base.hlen),
                json!({"engine": "c12", "kind": "flags", "flags": f, "variant": variant}),
            );
        }
    }
    let n_struct: u64 = if thorough { 2_000_000 } else { 20_000 };
    let n_havoc: u64 = if thorough { 2_000_000 } else { 20_000 };
    let mut handles = Vec::new();
    for shard in 0..shards {
        let mut leg = total.child();
        handles.push(std::thread::spawn(move || {
            let mut r = Rng::derive(seed, shard, 0xC12);
            for i in 0..n_struct / shards {
                let m = gen_msg(&mut r);
                if leg.wants_sample() && i < 2 {
                    leg.sample(json!({"kind": "structured", "hlen": m.hlen, "options": m.options.iter().map(|(c, v)| json!([c, v.len()])).collect::<Vec<_>>()}));
                }
                roundtrip_structured(&mut leg, &m);
            }
            // systematic + havoc mutants of the valid seeds
            let seeds = corpus::dhcp_seeds();
            let mut gidx = 0u64;
            for (si, s) in seeds.iter().enumerate() {
                let n = mutate::systematic_count(s.len());
                let stride = if !thorough && n > 8_000 { n / 8_000 + 1 } else { 1 };
                let mut k = 0;
                while k < n {
                    gidx += 1;
                    if gidx % shards == shard {
                        let (b, d) = mutate::systematic(s, k);
                        roundtrip_bytes(&mut leg, &b, &format!("systematic@seed{} {}", si, d));
                    }
                    k += stride;
                }
            }
            for _ in 0..n_havoc / shards {
                let s = r.pick(&seeds).clone();
                let (b, _) = if r.chance(1, 3) {
                    let h = corpus::dhcp_hostile(&mut r).0;
                    mutate::havoc(&mut r, &h, &seeds, 4000)
                } else {
                    mutate::havoc(&mut r, &s, &seeds, 4000)
                };
                roundtrip_bytes(&mut leg, &b, "havoc");
            }
            // frames: every payload length, sharded; thorough repeats each length with more addresses
            let reps = if thorough { 1000 } else { 40 };
            for plen in 0..=1472usize {
                if plen as u64 % shards == shard {
                    for _ in 0..reps {
                        check_frame(&mut leg, &mut r, plen);
                    }
                }
            }
            leg
        }));
    }
    for h in handles {
        match h.join() {
            Ok(l) => total.merge(l),
            Err(_) => total.inconclusive("shard thread died"),
        }
    }
    total
}

pub fn replay(v: &serde_json::Value) -> Leg {
    let mut leg = Leg::new("c12-replay", "C12", "replay of one recorded case");
    match v["kind"].as_str().unwrap_or("") {
        "structured" => {
            let b = crate::report::unhex(v["wire_hex"].as_str().unwrap_or(""));
            match rd::decode(&b, true, false) {
                Ok(m) => roundtrip_structured(&mut leg, &m),
                Err(e) => leg.inconclusive(e),
            }
        }
        "bytes" => {
            let b = crate::report::unhex(v["wire_hex"].as_str().unwrap_or(""));
            roundtrip_bytes(&mut leg, &b, "replay");
        }
        "flags" => {
            let f = v["flags"].as_u64().unwrap_or(0) as u16;
            let mut base = rd::Msg::default();
            base.flags = f;
            base.options = vec![(53, vec![1])];
            let bytes = rd::encode(&base);
            leg.eval();
            if let Ok(d) = dhcppkt::parse(&bytes) {
                if d.get_broadcast_flag() != (f & 0x8000 != 0) {
                    leg.violation("C12/broadcast-flag-wrong-bit", format!("flags {:#06x}", f), v.clone());
                }
            }
        }
        _ => {
            let plen = v["payload_len"].as_u64().unwrap_or(0) as usize;
            let mut r = Rng::new(1);
            check_frame(&mut leg, &mut r, plen);
        }
    }
    leg
}
