//! C17: router advertisements built from generated configurations, serialised by erbium and
//! decoded by the RFC decoder, compared with the values the configuration asked for.

use crate::guard;
use crate::refcodec::ra;
use crate::report::{Leg, hex};
use crate::rng::Rng;
use serde_json::{Value, json};
use std::net::Ipv6Addr;

#[derive(Clone, Debug, PartialEq)]
pub enum Cv<T> {
    Absent,
    Null,
    Val(T),
}

#[derive(Clone, Debug)]
pub struct PrefixCfg {
    pub addr: u128,
    pub len: u8,
    pub on_link: Option<bool>,
    pub autonomous: Option<bool>,
    pub valid: Option<u64>,
    pub preferred: Option<u64>,
}

#[derive(Clone, Debug, PartialEq)]
pub enum Dns6 {
    SelfAddr,
    Addr(u128),
}

#[derive(Clone, Debug)]
pub struct IntfCfg {
    pub hop_limit: Cv<u8>,
    pub managed: Option<bool>,
    pub other: Option<bool>,
    pub lifetime: Cv<u64>,
    pub reachable: Option<u64>,
    pub retransmit: Option<u64>,
    pub mtu: Cv<u32>,
    pub prefixes: Vec<PrefixCfg>,
    pub rdnss: Cv<Vec<Dns6>>,
    pub rdnss_lifetime: Option<u64>,
    pub dnssl: Cv<Vec<String>>,
    pub dnssl_lifetime: Option<u64>,
    pub captive: Cv<String>,
    pub pref64: Option<(u128, u8, Option<u64>)>,
}

#[derive(Clone, Debug)]
pub struct TopCfg {
    /// None = key absent (documented default: [$self4, $self6])
    pub dns_servers: Option<Vec<String>>,
    pub dns_search: Option<Vec<String>>,
    pub captive: Option<String>,
}

fn dur_text(r: &mut Rng, secs: u64) -> String {
    match r.below(4) {
        0 if secs % 3600 == 0 && secs > 0 => format!("{}h", secs / 3600),
        1 if secs % 60 == 0 && secs > 0 => format!("{}m", secs / 60),
        2 => format!("{}s", secs),
        _ => format!("{}", secs),
    }
}

fn gen_lifetime(r: &mut Rng, field_max: u64) -> u64 {
    match r.below(12) {
        0 => 0,
        1 => 1,
        2 => field_max,
        3 => field_max + 1,
        4 => field_max - 1,
        5 => 86_400,
        6 => 2_592_000,
        7 => (1u64 << 32) - 1,
        8 => 1u64 << 32,
        9 => r.range(0, 1 << 32),
        _ => r.range(1, 9000),
    }
}

fn gen_domain(r: &mut Rng) -> String {
    let n = r.range(1, 8);
    (0..n)
        .map(|_| {
            let l = match r.below(8) {
                0 => 63,
                1 => 1,
                _ => r.range(1, 12) as usize,
            };
            (0..l).map(|_| (b'a' + r.below(26) as u8) as char).collect::<String>()
        })
        .collect::<Vec<_>>()
        .join(".")
}

fn gen_v6(r: &mut Rng) -> u128 {
    match r.below(6) {
        0 => u128::from("2001:db8::53".parse::<Ipv6Addr>().unwrap()),
        // a configured value that coincides with a value of the environment: the interface's own address written out
        // (next to, or instead of, $self6)
        4 => u128::from(SELF6.parse::<Ipv6Addr>().unwrap()),
        1 => u128::from("fd00:abcd::1".parse::<Ipv6Addr>().unwrap()) + r.below(1000) as u128,
        _ => ((r.next() as u128) << 64 | r.next() as u128) | (0x2000u128 << 112),
    }
}

pub fn gen_case(r: &mut Rng) -> (TopCfg, IntfCfg) {
    let top = TopCfg {
        dns_servers: if r.chance(1, 3) {
            None
        } else {
            let n = r.range(0, 5);
            Some(
                (0..n)
                    .map(|_| match r.below(5) {
                        0 => "$self6".to_string(),
                        1 => "$self4".to_string(),
                        2 => format!("192.0.2.{}", r.range(1, 250)),
                        _ => Ipv6Addr::from(gen_v6(r)).to_string(),
                    })
                    .collect(),
            )
        },
        dns_search: if r.chance(1, 2) {
            None
        } else {
            let n = r.range(0, 4);
            Some((0..n).map(|_| gen_domain(r)).collect())
        },
        captive: if r.chance(1, 3) { Some(format!("https://portal.example/{}", r.range(0, 999))) } else { None },
    };
    let cv_life = |r: &mut Rng, max: u64| match r.below(4) {
        0 => Cv::Absent,
        1 => Cv::Null,
        _ => Cv::Val(gen_lifetime(r, max)),
    };
    let nprefix = match r.below(5) {
        0 => 0,
        1 => 16,
        _ => r.range(1, 4),
    };
    let prefixes = (0..nprefix)
        .map(|_| {
            let len = match r.below(5) {
                0 => 64,
                1 => 0,
                2 => 128,
                _ => r.range(0, 128) as u8,
            };
            let a = gen_v6(r);
            let mask = if len == 0 { 0 } else { u128::MAX << (128 - len as u32) };
            PrefixCfg {
                addr: if r.chance(1, 2) { a & mask } else { a },
                len,
                on_link: if r.bool() { Some(r.bool()) } else { None },
                autonomous: if r.bool() { Some(r.bool()) } else { None },
                valid: if r.bool() { Some(gen_lifetime(r, u32::MAX as u64)) } else { None },
                preferred: if r.bool() { Some(gen_lifetime(r, u32::MAX as u64)) } else { None },
            }
        })
        .collect();
    let intf = IntfCfg {
        hop_limit: match r.below(4) {
            0 => Cv::Absent,
            1 => Cv::Null,
            _ => Cv::Val(*r.pick(&[0u8, 1, 64, 255])),
        },
        managed: if r.bool() { Some(r.bool()) } else { None },
        other: if r.bool() { Some(r.bool()) } else { None },
        lifetime: cv_life(r, u16::MAX as u64),
        // reachable / retransmit are milliseconds on the wire (32 bit)
        reachable: if r.bool() { Some(gen_lifetime(r, u32::MAX as u64 / 1000)) } else { None },
        retransmit: if r.bool() { Some(gen_lifetime(r, u32::MAX as u64 / 1000)) } else { None },
        mtu: match r.below(4) {
            0 => Cv::Absent,
            1 => Cv::Null,
            _ => Cv::Val(*r.pick(&[1280u32, 1500, 9000, 0, u32::MAX, 65_535])),
        },
        prefixes,
        rdnss: match r.below(4) {
            0 => Cv::Absent,
            1 => Cv::Null,
            _ => {
                let n = r.range(0, 8);
                Cv::Val((0..n).map(|_| if r.chance(1, 4) { Dns6::SelfAddr } else { Dns6::Addr(gen_v6(r)) }).collect())
            }
        },
        rdnss_lifetime: if r.bool() { Some(gen_lifetime(r, u32::MAX as u64)) } else { None },
        dnssl: match r.below(4) {
            0 => Cv::Absent,
            1 => Cv::Null,
            _ => {
                let n = r.range(0, 5);
                Cv::Val((0..n).map(|_| gen_domain(r)).collect())
            }
        },
        dnssl_lifetime: if r.bool() { Some(gen_lifetime(r, u32::MAX as u64)) } else { None },
        captive: match r.below(4) {
            0 => Cv::Absent,
            1 => Cv::Null,
            _ => {
                let l = *r.pick(&[0usize, 1, 5, 6, 7, 13, 14, 15, 100, 240]);
                Cv::Val((0..l).map(|i| if i < 8 { b"https://"[i] as char } else { (b'a' + r.below(26) as u8) as char }).collect())
            }
        },
        pref64: if r.chance(1, 2) {
            let len = *r.pick(&[32u8, 40, 48, 56, 64, 96]);
            let a = u128::from("64:ff9b::".parse::<Ipv6Addr>().unwrap()) | ((r.next() as u128) << 40 & !(u128::MAX >> len));
            let mask = u128::MAX << (128 - len as u32);
            Some((a & mask, len, if r.bool() { Some(match r.below(8) { 0 => 0, 1 => 65_528, 2 => 65_529, 3 => 65_536, 4 => 600, 5 => 7, 6 => 9, _ => r.range(0, 100_000) }) } else { None }))
        } else {
            None
        },
    };
    (top, intf)
}

fn yq(s: &str) -> String {
    format!("'{}'", s.replace('\'', "''"))
}

pub fn to_yaml(r: &mut Rng, top: &TopCfg, i: &IntfCfg) -> String {
    let mut s = String::from("---\n");
    if let Some(d) = &top.dns_servers {
        s += &format!("dns-servers: [{}]\n", d.iter().map(|x| yq(x)).collect::<Vec<_>>().join(", "));
    }
    if let Some(d) = &top.dns_search {
        s += &format!("dns-search: [{}]\n", d.iter().map(|x| yq(x)).collect::<Vec<_>>().join(", "));
    }
    if let Some(c) = &top.captive {
        s += &format!("captive-portal: {}\n", yq(c));
    }
    s += "router-advertisements:\n  eth0:\n";
    let mut body = String::new();
    let mut kv = |k: &str, v: String| body += &format!("    {}: {}\n", k, v);
    match &i.hop_limit {
        Cv::Absent => {}
        Cv::Null => kv("hop-limit", "null".into()),
        Cv::Val(v) => kv("hop-limit", v.to_string()),
    }
    if let Some(b) = i.managed {
        kv("managed", b.to_string());
    }
    if let Some(b) = i.other {
        kv("other", b.to_string());
    }
    match &i.lifetime {
        Cv::Absent => {}
        Cv::Null => kv("lifetime", "null".into()),
        Cv::Val(v) => kv("lifetime", dur_text(r, *v)),
    }
    // how often unsolicited advertisements are sent: not a field of the advertisement, must not change any of them
    if r.chance(1, 3) {
        let max = *r.pick(&[4u64, 10, 600, 1_800, 0]);
        let max = if max == 0 { r.range(4, 1_800) } else { max };
        kv("max-router-advertisement-interval", format!("{}s", max));
        // (the sibling min-router-advertisement-interval is not written: the pinned loader refuses every value below 1350 s and
        // above 75 % of the maximum, i.e. all of them -- an inverted comparison outside the twenty properties)
    }
    if let Some(v) = i.reachable {
        kv("reachable", dur_text(r, v));
    }
    if let Some(v) = i.retransmit {
        kv("retransmit", dur_text(r, v));
    }
    match &i.mtu {
        Cv::Absent => {}
        Cv::Null => kv("mtu", "null".into()),
        Cv::Val(v) => kv("mtu", v.to_string()),
    }
    match &i.captive {
        Cv::Absent => {}
        Cv::Null => kv("captive-portal", "null".into()),
        Cv::Val(v) => kv("captive-portal", yq(v)),
    }
    if !i.prefixes.is_empty() {
        body += "    prefixes:\n";
        for p in &i.prefixes {
            body += &format!("      - prefix: {}/{}\n", Ipv6Addr::from(p.addr), p.len);
            if let Some(b) = p.on_link {
                body += &format!("        on-link: {}\n", b);
            }
            if let Some(b) = p.autonomous {
                body += &format!("        autonomous: {}\n", b);
            }
            if let Some(v) = p.valid {
                body += &format!("        valid: {}\n", dur_text(r, v));
            }
            if let Some(v) = p.preferred {
                body += &format!("        preferred: {}\n", dur_text(r, v));
            }
        }
    }
    if i.rdnss != Cv::Absent || i.rdnss_lifetime.is_some() {
        body += "    dns-servers:\n";
        match &i.rdnss {
            Cv::Absent => {}
            Cv::Null => body += "      addresses: null\n",
            Cv::Val(v) => {
                body += &format!(
                    "      addresses: [{}]\n",
                    v.iter()
                        .map(|d| match d {
                            Dns6::SelfAddr => yq("$self6"),
                            Dns6::Addr(a) => yq(&Ipv6Addr::from(*a).to_string()),
                        })
                        .collect::<Vec<_>>()
                        .join(", ")
                )
            }
        }
        if let Some(l) = i.rdnss_lifetime {
            body += &format!("      lifetime: {}\n", dur_text(r, l));
        }
    }
    if i.dnssl != Cv::Absent || i.dnssl_lifetime.is_some() {
        body += "    dns-search:\n";
        match &i.dnssl {
            Cv::Absent => {}
            Cv::Null => body += "      domains: null\n",
            Cv::Val(v) => body += &format!("      domains: [{}]\n", v.iter().map(|x| yq(x)).collect::<Vec<_>>().join(", ")),
        }
        if let Some(l) = i.dnssl_lifetime {
            body += &format!("      lifetime: {}\n", dur_text(r, l));
        }
    }
    if let Some((a, l, life)) = &i.pref64 {
        body += &format!("    pref64:\n      prefix: {}/{}\n", Ipv6Addr::from(*a), l);
        if let Some(v) = life {
            body += &format!("      lifetime: {}\n", dur_text(r, *v));
        }
    }
    if body.is_empty() {
        s = s.replace("  eth0:\n", "  eth0:\n    managed: false\n");
    }
    let doc = s + &body;
    // The keys of a YAML mapping have no order: in half of the documents the router-advertisements block stands BEFORE the
    // top-level defaults it falls back on.
    if r.bool() {
        if let Some(pos) = doc.find("router-advertisements:\n") {
            let head = &doc[4..pos];
            let ra = &doc[pos..];
            return format!("---\n{}{}", ra, head);
        }
    }
    doc
}

const SELF6: &str = "2001:db8:aaaa::1";
const IF_MTU: u32 = 1492;
const ROUTE_LIFETIME: u64 = 1800;
const LL: [u8; 6] = [2, 0, 0x5e, 0x10, 0, 0x99];

/// value is representable, else the wire must carry the field maximum (clamped)
fn clamp_ok(cfg: u64, wire: u64, max: u64) -> bool {
    if cfg <= max { wire == cfg } else { wire == max }
}

fn judge(top: &TopCfg, c: &IntfCfg, got: &ra::Ra, structural: &[String]) -> Vec<(String, String)> {
    let mut v: Vec<(String, String)> = Vec::new();
    let self6: Ipv6Addr = SELF6.parse().unwrap();
    for s in structural {
        let class = if s.contains("RDNSS option of") {
            "rdnss-without-addresses"
        } else if s.contains("DNSSL option of") {
            "dnssl-without-domains"
        } else if s.contains("beyond its length") {
            "prefix-host-bits-sent"
        } else if s.contains("multiple of 8") {
            "length-not-multiple-of-8"
        } else if s.contains("reserved") {
            "reserved-field-not-zero"
        } else if s.contains("PREF64") {
            "pref64-format"
        } else {
            "option-structure"
        };
        v.push((format!("structure/{}", class), s.clone()));
    }
    let hop = match &c.hop_limit {
        Cv::Val(x) => *x,
        _ => 0,
    };
    if got.hop_limit != hop {
        v.push(("hop-limit".into(), format!("configured {} sent {}", hop, got.hop_limit)));
    }
    if got.managed != c.managed.unwrap_or(false) || got.other != c.other.unwrap_or(false) {
        v.push(("flags".into(), format!("managed/other configured {:?}/{:?} sent {}/{}", c.managed, c.other, got.managed, got.other)));
    }
    let life = match &c.lifetime {
        Cv::Val(x) => *x,
        Cv::Null => 0,
        Cv::Absent => ROUTE_LIFETIME,
    };
    if !clamp_ok(life, got.router_lifetime as u64, u16::MAX as u64) {
        v.push((if life > u16::MAX as u64 { "wrapped/router-lifetime".into() } else { "router-lifetime".into() }, format!("configured {} s, sent {} s", life, got.router_lifetime)));
    }
    for (name, cfg, wire) in [("reachable", c.reachable, got.reachable_ms), ("retransmit", c.retransmit, got.retrans_ms)] {
        let ms = cfg.unwrap_or(0).saturating_mul(1000);
        if !clamp_ok(ms, wire as u64, u32::MAX as u64) {
            v.push((if ms > u32::MAX as u64 { format!("wrapped/{}", name) } else { name.to_string() }, format!("configured {} ms, sent {} ms", ms, wire)));
        }
    }
    let mtu = match &c.mtu {
        Cv::Val(x) => Some(*x),
        Cv::Null => None,
        Cv::Absent => Some(IF_MTU),
    };
    if got.mtu != mtu {
        v.push(("mtu".into(), format!("expected {:?} sent {:?}", mtu, got.mtu)));
    }
    if got.source_ll.as_deref() != Some(&LL[..]) {
        v.push(("source-link-layer-address".into(), format!("{:?}", got.source_ll)));
    }
    // prefixes
    if got.prefixes.len() != c.prefixes.len() {
        v.push(("prefix-count".into(), format!("configured {} sent {}", c.prefixes.len(), got.prefixes.len())));
    } else {
        for (p, g) in c.prefixes.iter().zip(got.prefixes.iter()) {
            let mask = if p.len == 0 { 0 } else { u128::MAX << (128 - p.len as u32) };
            if g.len != p.len || u128::from(g.prefix) & mask != p.addr & mask {
                v.push(("prefix-value".into(), format!("configured {}/{} sent {}/{}", Ipv6Addr::from(p.addr), p.len, g.prefix, g.len)));
            }
            if g.on_link != p.on_link.unwrap_or(true) || g.autonomous != p.autonomous.unwrap_or(true) {
                v.push(("prefix-flags".into(), format!("{:?}/{:?} sent {}/{}", p.on_link, p.autonomous, g.on_link, g.autonomous)));
            }
            let valid = p.valid.unwrap_or(2_592_000);
            let pref = p.preferred.unwrap_or(604_800);
            if !clamp_ok(valid, g.valid as u64, u32::MAX as u64) {
                v.push((if valid > u32::MAX as u64 { "wrapped/prefix-valid-lifetime".into() } else { "prefix-valid-lifetime".into() }, format!("configured {} sent {}", valid, g.valid)));
            }
            if !clamp_ok(pref, g.preferred as u64, u32::MAX as u64) {
                v.push((if pref > u32::MAX as u64 { "wrapped/prefix-preferred-lifetime".into() } else { "prefix-preferred-lifetime".into() }, format!("configured {} sent {}", pref, g.preferred)));
            }
        }
    }
    // RDNSS
    let want_rdnss: Option<Vec<Ipv6Addr>> = match &c.rdnss {
        Cv::Null => None,
        Cv::Val(l) => Some(
            l.iter()
                .map(|d| match d {
                    Dns6::SelfAddr => self6,
                    Dns6::Addr(a) => Ipv6Addr::from(*a),
                })
                .collect(),
        ),
        Cv::Absent => {
            let tops: Vec<String> = top.dns_servers.clone().unwrap_or_else(|| vec!["$self4".into(), "$self6".into()]);
            Some(
                tops.iter()
                    .filter_map(|s| if s == "$self6" { Some(self6) } else { s.parse::<Ipv6Addr>().ok() })
                    .collect(),
            )
        }
    };
    let got_rdnss: Vec<Ipv6Addr> = got.rdnss.iter().flat_map(|(_, a)| a.iter().copied()).collect();
    match &want_rdnss {
        None => {
            if !got.rdnss.is_empty() {
                v.push(("rdnss-sent-although-null".into(), format!("{:?}", got.rdnss)));
            }
        }
        Some(w) => {
            if *w != got_rdnss {
                let selfy = matches!(&c.rdnss, Cv::Val(l) if l.iter().any(|d| matches!(d, Dns6::SelfAddr)));
                let sig = if selfy && got_rdnss.iter().any(|a| a.is_unspecified()) { "rdnss/self6-not-replaced" } else { "rdnss-addresses" };
                v.push((sig.into(), format!("expected {:?} sent {:?}", w, got_rdnss)));
            }
            if let (Some(l), Some((gl, _))) = (c.rdnss_lifetime, got.rdnss.first()) {
                if !clamp_ok(l, *gl as u64, u32::MAX as u64) {
                    v.push((if l > u32::MAX as u64 { "wrapped/rdnss-lifetime".into() } else { "rdnss-lifetime".into() }, format!("configured {} sent {}", l, gl)));
                }
            }
        }
    }
    // DNSSL
    let want_dnssl: Option<Vec<String>> = match &c.dnssl {
        Cv::Null => None,
        Cv::Val(l) => Some(l.clone()),
        Cv::Absent => Some(top.dns_search.clone().unwrap_or_default()),
    };
    let got_dnssl: Vec<String> = got.dnssl.iter().flat_map(|(_, d)| d.iter().cloned()).collect();
    match &want_dnssl {
        None => {
            if !got.dnssl.is_empty() {
                v.push(("dnssl-sent-although-null".into(), format!("{:?}", got.dnssl)));
            }
        }
        Some(w) => {
            if *w != got_dnssl {
                v.push(("dnssl-domains".into(), format!("expected {:?} sent {:?}", w, got_dnssl)));
            }
            if let (Some(l), Some((gl, _))) = (c.dnssl_lifetime, got.dnssl.first()) {
                if !clamp_ok(l, *gl as u64, u32::MAX as u64) {
                    v.push((if l > u32::MAX as u64 { "wrapped/dnssl-lifetime".into() } else { "dnssl-lifetime".into() }, format!("configured {} sent {}", l, gl)));
                }
            }
        }
    }
    // captive portal
    let want_cp: Option<String> = match &c.captive {
        Cv::Null => None,
        Cv::Val(s) => Some(s.clone()),
        Cv::Absent => top.captive.clone(),
    };
    let got_cp: Vec<String> = got.captive_portal.iter().map(|b| String::from_utf8_lossy(b).to_string()).collect();
    match (&want_cp, got_cp.as_slice()) {
        (None, []) => {}
        (Some(w), [g]) if w == g => {}
        (w, g) => v.push(("captive-portal".into(), format!("expected {:?} sent {:?}", w, g))),
    }
    // PREF64
    match (&c.pref64, got.pref64.as_slice()) {
        (None, []) => {}
        (Some((a, l, life)), [(gl, glen, gp)]) => {
            if glen != l {
                v.push((format!("pref64/prefix-length-code/{}", l), format!("configured /{} decodes as /{}", l, glen)));
            } else if u128::from(*gp) != *a & (u128::MAX << 32) {
                v.push(("pref64/prefix".into(), format!("configured {} sent {}", Ipv6Addr::from(*a), gp)));
            }
            let life = life.unwrap_or(600);
            // the field counts units of 8 s (13 bits): rounding either way is acceptable
            let max = 65_528u64;
            let ok = if life <= max { (*gl as u64) / 8 == life / 8 || (*gl as u64) == life.div_ceil(8) * 8 } else { *gl as u64 == max };
            if !ok && glen == l {
                v.push((if life > max { "wrapped/pref64-lifetime".into() } else { "pref64/lifetime".into() }, format!("configured {} s sent {} s", life, gl)));
            }
        }
        (w, g) => v.push(("pref64/presence".into(), format!("configured {:?} sent {:?}", w, g))),
    }
    v
}

fn case(leg: &mut Leg, r: &mut Rng, case_seed: u64) {
    leg.eval();
    let (top, intf) = gen_case(r);
    let yaml = to_yaml(r, &top, &intf);
    let replay = json!({"engine": "c17", "case_seed": case_seed, "yaml": yaml});
    let unrepresentable = {
        let big32 = |x: Option<u64>| x.map(|v| v > u32::MAX as u64).unwrap_or(false);
        matches!(&intf.lifetime, Cv::Val(x) if *x > u16::MAX as u64)
            || intf.reachable.map(|x| x * 1000 > u32::MAX as u64).unwrap_or(false)
            || intf.retransmit.map(|x| x * 1000 > u32::MAX as u64).unwrap_or(false)
            || intf.prefixes.iter().any(|p| big32(p.valid) || big32(p.preferred))
            || big32(intf.rdnss_lifetime)
            || big32(intf.dnssl_lifetime)
            || intf.pref64.as_ref().map(|p| p.2.unwrap_or(0) > 65_528).unwrap_or(false)
    };
    let res = guard::timed(yaml.as_bytes(), || {
        let conf = erbium::config::verif_load_config_from_string(&yaml).map_err(|e| e.to_string())?;
        let c = conf.try_read().expect("lock");
        let i = c.ra.interfaces.first().ok_or_else(|| "no interface parsed".to_string())?;
        let lifetime = match &intf.lifetime {
            Cv::Absent => std::time::Duration::from_secs(ROUTE_LIFETIME),
            Cv::Null => std::time::Duration::from_secs(0),
            Cv::Val(x) => std::time::Duration::from_secs(*x),
        };
        // the service resolves `mtu` before calling the pure builder; mirror that
        let mtu = match &intf.mtu {
            Cv::Absent => Some(IF_MTU),
            Cv::Null => None,
            Cv::Val(x) => Some(*x),
        };
        let adv = erbium::radv::verif_build_announcement(&c, i, Some(LL), mtu, SELF6.parse().unwrap(), lifetime);
        Ok::<_, String>(erbium::radv::icmppkt::serialise(&erbium::radv::icmppkt::Icmp6::RtrAdvert(adv)))
    });
    leg.class(format!(
        "pfx{}|rdnss{}|dnssl{}|cp{}|p64{}|unrep{}",
        intf.prefixes.len().min(3),
        match &intf.rdnss { Cv::Absent => "absent", Cv::Null => "null", Cv::Val(v) if v.is_empty() => "empty", _ => "set" },
        match &intf.dnssl { Cv::Absent => "absent", Cv::Null => "null", Cv::Val(v) if v.is_empty() => "empty", _ => "set" },
        match &intf.captive { Cv::Absent => "absent", Cv::Null => "null", _ => "set" },
        intf.pref64.as_ref().map(|p| p.1).unwrap_or(0),
        unrepresentable
    ));
    if leg.wants_sample() {
        leg.sample(json!({"yaml": yaml}));
    }
    match res {
        Err(p) => {
            // a crash while building/serialising an accepted configuration (C19 shares this)
            leg.violation(format!("C17/panic/{}/{}", p.site().split(':').next().unwrap_or(""), p.class()), format!("{} at {}", p.message, p.location), replay)
        }
        Ok(Err(e)) => {
            if unrepresentable {
                leg.count("unrepresentable_rejected_at_load", 1);
            } else {
                leg.violation("C17/valid-configuration-rejected", e, replay);
            }
        }
        Ok(Ok(bytes)) => match ra::decode(&bytes) {
            Err(e) => leg.violation("C17/advertisement-undecodable", format!("{} ({})", e, hex(&bytes[..bytes.len().min(64)])), replay),
            Ok((got, structural)) => {
                for (sig, detail) in judge(&top, &intf, &got, &structural) {
                    leg.violation(format!("C17/{}", sig), detail, replay.clone());
                }
            }
        },
    }
}

pub fn run(seed: u64, thorough: bool, shards: u64) -> Leg {
    let mut total = Leg::new(
        "c17-ra-inproc",
        "C17",
        "interface configurations (every field present/absent/null; lifetimes 0..2^32 incl. field maxima +-1; 0..16 prefixes of every length with and without host bits; 0..8 DNS servers incl. $self6; 0..4 search domains of 1..8 labels; NAT64 lengths {32,40,48,56,64,96}; URLs 0..240 octets; top-level defaults) as YAML through the real loader, the pure builder (hook H4) and the serialiser; bytes decoded by the RFC decoder and compared with the configured values; distinct = (prefix count, RDNSS/DNSSL/captive-portal source, NAT64 length, unrepresentable value present)",
    );
    total.floor = 500;
    let n: u64 = if thorough { 500_000 } else { 8_000 };
    let mut handles = Vec::new();
    for shard in 0..shards {
        let mut leg = total.child();
        handles.push(std::thread::spawn(move || {
            for i in 0..n / shards {
                let case_seed = seed.wrapping_mul(1_000_081).wrapping_add(shard * 8_000_009 + i);
                let mut r = Rng::new(case_seed);
                case(&mut leg, &mut r, case_seed);
            }
            leg
        }));
    }
    for h in handles {
        match h.join() {
            Ok(l) => total.merge(l),
            Err(_) => total.inconclusive("shard thread died"),
        }
    }
    total
}

pub fn replay(v: &Value) -> Leg {
    let mut leg = Leg::new("c17-replay", "C17", "replay of one recorded case");
    let cs = v["case_seed"].as_u64().unwrap_or(0);
    let mut r = Rng::new(cs);
    case(&mut leg, &mut r, cs);
    leg
}

/// Judge an advertisement captured on the wire by the end-to-end rig (hex) against a JSON
/// description of the expected values (subset of fields).
pub fn judge_wire(bytes: &[u8]) -> Value {
    match ra::decode(bytes) {
        Err(e) => json!({"error": e}),
        Ok((g, bad)) => json!({
            "structural": bad,
            "hop_limit": g.hop_limit, "managed": g.managed, "other": g.other,
            "router_lifetime": g.router_lifetime, "reachable_ms": g.reachable_ms, "retrans_ms": g.retrans_ms,
            "mtu": g.mtu, "source_ll": g.source_ll.map(|x| hex(&x)),
            "prefixes": g.prefixes.iter().map(|p| json!({"prefix": p.prefix.to_string(), "len": p.len, "on_link": p.on_link, "autonomous": p.autonomous, "valid": p.valid, "preferred": p.preferred})).collect::<Vec<_>>(),
            "rdnss": g.rdnss.iter().map(|(l, a)| json!({"lifetime": l, "addresses": a.iter().map(|x| x.to_string()).collect::<Vec<_>>()})).collect::<Vec<_>>(),
            "dnssl": g.dnssl.iter().map(|(l, d)| json!({"lifetime": l, "domains": d})).collect::<Vec<_>>(),
            "pref64": g.pref64.iter().map(|(l, n, p)| json!({"lifetime": l, "len": n, "prefix": p.to_string()})).collect::<Vec<_>>(),
            "captive_portal": g.captive_portal.iter().map(|b| String::from_utf8_lossy(b).to_string()).collect::<Vec<_>>(),
        }),
    }
}
