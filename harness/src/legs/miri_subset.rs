//! The subset of the codecs that Miri can interpret (no FFI: no SQLite, no sockets): DHCP, DNS,
//! ICMPv6 and LLDP decoders/encoders, the Ethernet/IPv4/UDP frame builder and erbium-net's unsafe
//! address conversions.  Run with `cargo +nightly miri run -- miri-subset --n N`: Miri is the
//! oracle (undefined behaviour, out-of-bounds, invalid values abort the interpreter); the harness
//! additionally counts panics like everywhere else.

use crate::corpus;
use crate::guard;
use crate::mutate;
use crate::report::{Leg, hex};
use crate::rng::Rng;
use erbium_net::addr::{NetAddrExt as _, ToNetAddr as _, WithPort as _};
use serde_json::json;

pub fn run(seed: u64, n: u64) -> Leg {
    let mut leg = Leg::new(
        "miri-codec-subset",
        "C05",
        "under the Miri interpreter: hostile and mutated packets through dhcppkt::parse/serialise, the DNS parser/serialiser (hook H3), icmppkt::parse, LldpPacket::from_wire, packet::Fragment::new_udp4 and erbium-net's unsafe NetAddr conversions; Miri aborts on undefined behaviour, panics are counted; distinct = (codec, outcome)",
    );
    leg.floor = 20;
    let mut r = Rng::derive(seed, 0x3141, 0);
    let dhcp = corpus::dhcp_seeds();
    let dns = corpus::dns_seeds();
    let icmp = corpus::icmp6_seeds();
    let lldp = corpus::lldp_seeds();
    for i in 0..n {
        let which = i % 6;
        let (name, b): (&str, Vec<u8>) = match which {
            0 => ("dhcp", if r.bool() { corpus::dhcp_hostile(&mut r).0 } else { { let k = r.usize(dhcp.len()); mutate::havoc(&mut r, &dhcp[k].clone(), &dhcp, 1500).0 } }),
            1 => ("dns", if r.bool() { let (mut b, _) = corpus::dns_hostile(&mut r); b.truncate(3000); b } else { { let k = r.usize(dns.len()); mutate::havoc(&mut r, &dns[k].clone(), &dns, 1500).0 } }),
            2 => ("icmp6", if r.bool() { corpus::icmp6_hostile(&mut r).0 } else { { let k = r.usize(icmp.len()); mutate::havoc(&mut r, &icmp[k].clone(), &icmp, 600).0 } }),
            3 => ("lldp", if r.bool() { corpus::lldp_hostile(&mut r).0 } else { { let k = r.usize(lldp.len()); mutate::havoc(&mut r, &lldp[k].clone(), &lldp, 600).0 } }),
            4 => ("frame", r.bytes_in(0, 300)),
            _ => ("addr", r.bytes(18)),
        };
        leg.eval();
        let res = guard::guard(|| match which {
            0 => match erbium::dhcp::dhcppkt::parse(&b) {
                Ok(p) => {
                    let w = p.serialise();
                    let _ = erbium::dhcp::dhcppkt::parse(&w);
                    let _ = format!("{:?}", p);
                    "ok"
                }
                Err(_) => "err",
            },
            1 => match erbium::dns::verif::parse(&b) {
                Ok(p) => {
                    let w = p.serialise();
                    let _ = erbium::dns::verif::parse(&w);
                    let _ = p.serialise_with_size(512);
                    if let Some(e) = &p.edns {
                        let _ = e.get_cookie();
                        let _ = e.get_extended_dns_error();
                    }
                    "ok"
                }
                Err(_) => "err",
            },
            2 => match erbium::radv::icmppkt::parse(&b) {
                Ok(_) => "ok",
                Err(_) => "err",
            },
            3 => {
                use erbium::pktparser::Deserialise as _;
                match erbium::lldp::lldppkt::LldpPacket::from_wire(&mut erbium::pktparser::Buffer::new(&b)) {
                    Ok(p) => {
                        let _ = format!("{}", p);
                        "ok"
                    }
                    Err(_) => "err",
                }
            }
            4 => {
                use erbium_net::packet::{Fragment, Tail};
                let s = erbium_net::addr::Inet4Addr::from(std::net::SocketAddrV4::new(std::net::Ipv4Addr::new(10, 0, 0, 1), 67));
                let d = erbium_net::addr::Inet4Addr::from(std::net::SocketAddrV4::new(std::net::Ipv4Addr::BROADCAST, 68));
                let f = Fragment::new_udp4(s, &[2, 0, 0, 0, 0, 1], d, &[2, 0, 0, 0, 0, 2], Tail::Payload(&b)).flatten();
                if crate::refcodec::frame::decode_udp4(&f).is_ok() { "ok" } else { "invalid" }
            }
            _ => {
                // the unsafe conversions: std address -> nix storage -> back
                let v4 = std::net::Ipv4Addr::new(b[0], b[1], b[2], b[3]);
                let port = u16::from_be_bytes([b[4], b[5]]);
                let a = v4.with_port(port);
                let mut o = [0u8; 16];
                o.copy_from_slice(&b[2..18]);
                let v6 = std::net::Ipv6Addr::from(o);
                let c = v6.with_port(port);
                let u = erbium_net::addr::UnixAddr::new("/run/x").unwrap().to_net_addr();
                let ok = a.ip() == Some(std::net::IpAddr::V4(v4)) && a.port() == Some(port) && c.ip() == Some(std::net::IpAddr::V6(v6)) && u.ip().is_none() && a.to_std_socket_addr().is_some();
                let _ = erbium_net::socket::std_to_libc_in_addr(v4);
                if ok { "ok" } else { "mismatch" }
            }
        });
        match res {
            Ok(c) => {
                leg.class(format!("{}|{}", name, c));
                if c == "mismatch" || c == "invalid" {
                    leg.violation(format!("C05/miri/{}-{}", name, c), hex(&b), json!({"engine": "miri", "input_hex": hex(&b), "codec": name}));
                }
            }
            Err(p) => leg.violation(format!("C05/miri/panic/{}/{}", name, p.class()), format!("{} at {}", p.message, p.location), json!({"engine": "miri", "input_hex": hex(&b), "codec": name})),
        }
    }
    leg.sample(json!({"inputs": n, "codecs": ["dhcp", "dns", "icmp6", "lldp", "frame", "addr"]}));
    leg
}
