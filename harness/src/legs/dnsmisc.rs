//! In-process legs for C06 (cache TTL discipline under tokio's paused clock) and C16 (token
//! bucket under a virtual clock; server cookie validation).

use crate::guard;
use crate::refcodec::dns as rn;
use crate::report::{Leg, hex};
use crate::rng::Rng;
use erbium::dns::verif as ev;
use erbium_net::addr::WithPort as _;
use serde_json::json;
use std::sync::atomic::{AtomicU32, Ordering};
use std::time::Duration;

// ------------------------------------------------------------------------------------------ C06

fn ttl_pick(r: &mut Rng) -> u32 {
    match r.below(12) {
        0 => 0,
        1 => 1,
        2 => 2,
        3 => u32::MAX,
        4 => u32::MAX - 1,
        5 => 0x8000_0000,
        6 => 0x7fff_ffff,
        7 => r.u32(),
        _ => r.range(1, 600) as u32,
    }
}

#[derive(Clone, Debug)]
struct Key {
    name: rn::Name,
    qtype: u16,
    edns_do: bool,
    cd: bool,
}

fn query_for(k: &Key, id: u16) -> Vec<u8> {
    let m = rn::Msg {
        id,
        flags: 0x0100 | if k.cd { 0x0010 } else { 0 },
        questions: vec![rn::Question {
            name: k.name.clone(),
            qtype: k.qtype,
            qclass: 1,
        }],
        opt: Some(rn::Opt {
            udp_size: 1232,
            flags: if k.edns_do { 0x8000 } else { 0 },
            ..Default::default()
        }),
        ..Default::default()
    };
    rn::encode(&m, rn::Compress::None)
}

fn c06_case(leg: &mut Leg, r: &mut Rng, case_seed: u64) {
    let names = rn::gen_name_pool(r, 4, false);
    let mut name = names[1 + r.usize(names.len() - 1)].clone();
    if r.chance(1, 4) {
        // a name that has twins under textual renderings (a dot or an unprintable octet inside a label)
        let l = crate::refcodec::weakhash::twinnable_label(r);
        if name.iter().map(|x| x.len() + 1).sum::<usize>() + l.len() + 2 <= 255 {
            name.insert(0, l);
        }
    }
    let key = Key {
        name,
        qtype: *r.pick(&[1u16, 28, 5, 15, 16, 6]),
        edns_do: r.bool(),
        cd: r.bool(),
    };
    let qb = query_for(&key, r.u16());
    // upstream reply with TTLs spread over the three sections
    let nrec = r.range(1, 9) as usize;
    let q = rn::decode(&qb, true).expect("own query").0;
    let mut up = rn::gen_reply(r, &q, nrec, 40, false);
    if r.chance(1, 3) {
        // record types a cache might think "do not count" (TSIG 250, TKEY 249, SIG 24, NULL 10, private use, an OPT-like 41 is
        // lifted out by the decoder so it is not used): the smallest TTL of ANY record bounds the entry
        let t = *r.pick(&[250u16, 249, 24, 10, 65_280, 99, 46, 47]);
        let rr = rn::Rr { name: q.questions[0].name.clone(), rtype: t, class: if r.chance(1, 4) { 255 } else { 1 }, ttl: 0, rdata: r.bytes_in(0, 24) };
        match r.below(3) {
            0 => up.answer.push(rr),
            1 => up.authority.push(rr),
            _ => up.additional.push(rr),
        }
    }
    for rr in up.answer.iter_mut().chain(up.authority.iter_mut()).chain(up.additional.iter_mut()) {
        rr.ttl = ttl_pick(r);
    }
    if r.chance(1, 2) {
        // keep the smallest TTL positive so that the entry is storable
        for rr in up.answer.iter_mut().chain(up.authority.iter_mut()).chain(up.additional.iter_mut()) {
            if rr.ttl == 0 {
                rr.ttl = r.range(1, 50) as u32;
            }
        }
    }
    let all: Vec<u32> = up.answer.iter().chain(up.authority.iter()).chain(up.additional.iter()).map(|x| x.ttl).collect();
    let min_ttl = all.iter().copied().min();
    let ub = rn::encode(&up, rn::Compress::Full);
    // elapsed times to probe (milliseconds)
    let mut probes: Vec<u64> = vec![0, 999];
    if let Some(m) = min_ttl {
        let m = m as u64;
        for d in [m.saturating_sub(1) * 1000, m * 1000, m * 1000 - (m * 1000).min(1), m * 1000 + 1, m * 1000 + 1000, m * 500 + 250] {
            probes.push(d);
        }
    }
    let maxttl = all.iter().copied().max().unwrap_or(0) as u64;
    probes.push(maxttl * 1000);
    probes.push(maxttl * 1000 + 1000);
    probes.push((1u64 << 32) * 1000);
    probes.push(r.below(700_000));
    probes.sort();
    probes.dedup();
    // near-miss keys
    let mut others: Vec<(Key, &'static str)> = Vec::new();
    others.push((Key { edns_do: !key.edns_do, ..key.clone() }, "do-flipped"));
    others.push((Key { cd: !key.cd, ..key.clone() }, "cd-flipped"));
    others.push((Key { qtype: if key.qtype == 1 { 28 } else { 1 }, ..key.clone() }, "other-type"));
    let mut on = key.name.clone();
    if on.is_empty() {
        on.push(b"x".to_vec());
    } else {
        on[0].push(b'x');
        if on[0].len() > 63 {
            on[0] = b"y".to_vec();
        }
    }
    others.push((Key { name: on, ..key.clone() }, "other-name"));
    if !key.name.is_empty() {
        others.push((Key { name: key.name[1..].to_vec(), ..key.clone() }, "parent-name"));
    }
    for (twin, _how) in crate::refcodec::weakhash::text_twins(&key.name) {
        if twin != key.name && twin.iter().map(|x| x.len() + 1).sum::<usize>() + 1 <= 255 {
            others.push((Key { name: twin, ..key.clone() }, "text-twin-name"));
        }
    }

    let replay = json!({"engine": "c06", "case_seed": case_seed});
    let rt = tokio::runtime::Builder::new_current_thread()
        .enable_time()
        .start_paused(true)
        .build()
        .expect("runtime");
    let res = guard::timed(&ub, || {
        rt.block_on(async {
            let mut viol: Vec<(String, String)> = Vec::new();
            let mut notes: Vec<(String, u64)> = Vec::new();
            let qp = match ev::parse(&qb) {
                Ok(p) => p,
                Err(e) => return (vec![("harness-query-rejected".to_string(), e)], notes),
            };
            let outr = match ev::parse(&ub) {
                Ok(p) => p,
                Err(e) => return (vec![("harness-reply-rejected".to_string(), e)], notes),
            };
            let mut cache = ev::VerifCache::new();
            let stored = cache.store(&qp, &outr);
            match min_ttl {
                Some(0) | None => {
                    if stored {
                        viol.push(("zero-ttl-reply-stored".into(), format!("min ttl {:?} but the reply was stored", min_ttl)));
                    }
                    notes.push(("zero_ttl_not_stored".into(), 1));
                    // an un-stored reply must never be served
                    if cache.lookup(&qp).is_some() {
                        viol.push(("served-without-store".into(), "lookup hit although nothing was stored".into()));
                    }
                    return (viol, notes);
                }
                Some(_) => {
                    if !stored {
                        // not caching is always safe; count it
                        notes.push(("storable_reply_not_stored".into(), 1));
                        return (viol, notes);
                    }
                }
            }
            let min_ttl = min_ttl.unwrap() as u64;
            let mut elapsed = 0u64;
            for d in &probes {
                tokio::time::advance(Duration::from_millis(d - elapsed)).await;
                elapsed = *d;
                if elapsed % 3000 == 1000 {
                    cache.expire();
                    notes.push(("expire_runs".into(), 1));
                }
                let hit = cache.lookup(&qp);
                let secs = elapsed / 1000;
                match hit {
                    Some(Ok(rep)) => {
                        notes.push(("served_from_cache".into(), 1));
                        if elapsed > min_ttl * 1000 {
                            viol.push(("served-past-ttl".into(), format!("min ttl {} s, served {} ms after it was obtained", min_ttl, elapsed)));
                        }
                        // Records are matched by what they ARE (section, owner, type, class, data), not by where they stand: the
                        // order inside a section is not C06's subject (a cache may rotate an RRset).
                        let ident = |sec: usize, x: &erbium::dns::dnspkt::RR| -> String {
                            let mut y = x.clone();
                            y.ttl = 0;
                            format!("{}|{:?}", sec, y)
                        };
                        let mut got: std::collections::BTreeMap<String, Vec<u64>> = Default::default();
                        let mut want: std::collections::BTreeMap<String, Vec<(u64, u64)>> = Default::default();
                        let mut n_got = 0;
                        let mut n_orig = 0;
                        for (sec, (gs, os)) in [(&rep.answer, &outr.answer), (&rep.nameserver, &outr.nameserver), (&rep.additional, &outr.additional)].into_iter().enumerate() {
                            for x in gs.iter() {
                                got.entry(ident(sec, x)).or_default().push(x.ttl as u64);
                                n_got += 1;
                            }
                            for x in os.iter() {
                                want.entry(ident(sec, x)).or_default().push(((x.ttl as u64).saturating_sub(secs), x.ttl as u64));
                                n_orig += 1;
                            }
                        }
                        if n_got != n_orig || got.keys().ne(want.keys()) {
                            viol.push(("cached-reply-lost-records".into(), format!("{} records served, {} obtained (or not the same records)", n_got, n_orig)));
                        } else {
                            'outer: for (k, gl) in got.iter_mut() {
                                let wl = want.get_mut(k).unwrap();
                                gl.sort();
                                wl.sort();
                                if gl.len() != wl.len() {
                                    viol.push(("cached-reply-lost-records".into(), format!("{} copies served, {} obtained", gl.len(), wl.len())));
                                    break;
                                }
                                for (g, (w, o)) in gl.iter().zip(wl.iter()) {
                                    if g != w {
                                        let class = if g > o { "ttl-grew" } else { "ttl-not-original-minus-elapsed" };
                                        viol.push((class.into(), format!("original ttl {}, {} s elapsed, served ttl {} (want {})", o, secs, g, w)));
                                        break 'outer;
                                    }
                                }
                            }
                        }
                    }
                    Some(Err(e)) => viol.push(("cached-reply-became-error".into(), e)),
                    None => {
                        notes.push(("not_served".into(), 1));
                        // refusing to serve is always safe, but an entry that expire() removed
                        // while still live would show up as an early miss: count those
                        if elapsed + 1000 <= min_ttl * 1000 {
                            notes.push(("miss_while_live".into(), 1));
                        }
                    }
                }
                for (k2, what) in &others {
                    let q2 = query_for(k2, 7);
                    if let Ok(p2) = ev::parse(&q2) {
                        if cache.lookup(&p2).is_some() {
                            viol.push((format!("served-for-different-key/{}", what), format!("entry for {:?} served for {:?}", key, k2)));
                        }
                    }
                }
            }
            (viol, notes)
        })
    });
    leg.eval();
    leg.class(format!("min{}|max{}|do{}|cd{}|n{}", match min_ttl { None => "none", Some(0) => "0", Some(1..=2) => "tiny", Some(3..=600) => "s", _ => "huge" }, if maxttl > 0x7fff_ffff { "hi" } else { "lo" }, key.edns_do, key.cd, nrec.min(4)));
    match res {
        Err(p) => leg.violation(format!("C06/panic/{}", p.class()), format!("{} at {} (ttls {:?})", p.message, p.location, all), replay),
        Ok((viol, notes)) => {
            for (n, c) in notes {
                leg.count(&n, c);
            }
            for (sig, detail) in viol {
                leg.violation(format!("C06/{}", sig), format!("{} [ttls {:?}]", detail, all), replay.clone());
            }
        }
    }
}

pub fn run_c06(seed: u64, thorough: bool, shards: u64) -> Leg {
    let mut total = Leg::new(
        "c06-cache-inproc",
        "C06",
        "replies with TTLs from {0,1,2,2^31-1,2^31,2^32-2,2^32-1,random,1..600} over the three sections stored through the cache's own key/lifetime/insert code (hook H3) under tokio's paused clock; looked up at elapsed times {0, 0.999, min-1, min-0.001, min, min+0.001, min+1, min/2+0.25, max, max+1, 2^32} s with the same key and five near-miss keys (DO flipped, CD flipped, other type, other name, parent name), expire() interleaved; distinct = (min TTL class, max TTL class, DO, CD, record count)",
    );
    total.floor = 500;
    let n: u64 = if thorough { 400_000 } else { 6_000 };
    let mut handles = Vec::new();
    for shard in 0..shards {
        let mut leg = total.child();
        handles.push(std::thread::spawn(move || {
            for i in 0..n / shards {
                let case_seed = seed.wrapping_mul(1_000_003).wrapping_add(shard * 10_000_019 + i);
                let mut r = Rng::new(case_seed);
                if leg.wants_sample() && i < 2 {
                    leg.sample(json!({"case_seed": case_seed, "note": "one stored reply probed at ~12 elapsed times with 6 keys"}));
                }
                c06_case(&mut leg, &mut r, case_seed);
            }
            leg
        }));
    }
    for h in handles {
        match h.join() {
            Ok(l) => total.merge(l),
            Err(_) => total.inconclusive("shard thread died"),
        }
    }
    total
}

pub fn replay_c06(v: &serde_json::Value) -> Leg {
    let mut leg = Leg::new("c06-replay", "C06", "replay of one recorded case");
    let cs = v["case_seed"].as_u64().unwrap_or(0);
    let mut r = Rng::new(cs);
    c06_case(&mut leg, &mut r, cs);
    leg
}

// ------------------------------------------------------------------------------------------ C16

static VNOW: AtomicU32 = AtomicU32::new(0);

thread_local! {
    static TNOW: std::cell::Cell<u32> = const { std::cell::Cell::new(0) };
}

/// A virtual clock per thread (the trait's now() is static).
pub struct VClock;
impl ev::Clock for VClock {
    fn now() -> u32 {
        let _ = VNOW.load(Ordering::Relaxed);
        TNOW.with(|t| t.get())
    }
}

fn set_now(t: u32) {
    TNOW.with(|c| c.set(t));
}

fn c16_bucket_case(leg: &mut Leg, r: &mut Rng, case_seed: u64) {
    let b_tokens = ev::GenericTokenBucket::VERIF_MAX_TOKENS as u64;
    let rate = ev::GenericTokenBucket::VERIF_TOKENS_PER_SECOND as u64;
    leg.eval();
    let replay = json!({"engine": "c16-bucket", "case_seed": case_seed});
    let start: u32 = match r.below(5) {
        0 => 1_700_000_000,
        1 => 100_000,
        2 => u32::MAX - 5_000,
        3 => 0x7fff_ff00,
        _ => r.range(1_000_000, 4_000_000_000) as u32,
    };
    let steps = r.range(20, 400);
    let style = r.below(4);
    let mut t = start;
    // (time, granted tokens)
    let mut grants: Vec<(u32, u64)> = Vec::new();
    let mut idle_checks = 0u64;
    let res = guard::guard(|| {
        let mut bucket = ev::GenericTokenBucket::new();
        let mut viol: Vec<(String, String)> = Vec::new();
        let mut last_activity = t;
        set_now(t);
        // bring the bucket to a known state: drain whatever the initial fill allows
        for _ in 0..steps {
            let dt = match style {
                0 => 0,
                1 => r.below(3) as u32,
                2 => {
                    if r.chance(1, 10) {
                        r.range(40, 200) as u32
                    } else {
                        r.below(2) as u32
                    }
                }
                _ => r.below(30) as u32,
            };
            let nt = t.checked_add(dt);
            let nt = match nt {
                Some(x) => x,
                None => break,
            };
            t = nt;
            set_now(t);
            let cost = match r.below(6) {
                0 => 1,
                1 => b_tokens as u32,
                2 => b_tokens as u32 + 1,
                3 => r.range(1, b_tokens.max(2)) as u32,
                4 => r.range(1, 20) as u32,
                _ => r.range(1, 3 * b_tokens.max(1)) as u32,
            };
            let idle = t - last_activity;
            let ok = bucket.check::<VClock>(cost);
            if ok {
                bucket.deplete::<VClock>(cost);
                grants.push((t, cost as u64));
                last_activity = t;
            } else if idle as u64 * rate >= b_tokens && (cost as u64) <= b_tokens {
                viol.push(("quiet-source-denied".into(), format!("idle for {} s (refill period {} s) yet a request of {} <= {} tokens was denied at t={}", idle, b_tokens / rate.max(1), cost, b_tokens, t)));
            }
            if idle as u64 * rate >= b_tokens && (cost as u64) <= b_tokens {
                idle_checks += 1;
            }
        }
        viol
    });
    leg.class(format!("style{}|start{}|grants{}", style, if start > 0xf000_0000 { "hi" } else if start < 1_000_000 { "lo" } else { "mid" }, grants.len().min(6)));
    leg.count("idle_gap_checks", idle_checks);
    leg.count("bucket_grants", grants.len() as u64);
    match res {
        Err(p) => leg.violation(format!("C16/bucket-panic/{}", p.class()), format!("{} at {} (start {})", p.message, p.location, start), replay),
        Ok(viol) => {
            for (sig, d) in viol {
                leg.violation(format!("C16/{}", sig), d, replay.clone());
            }
            // every window [t_i, t_j]: sum of grants <= B + R*(t_j - t_i) (+ per-grant rounding to
            // whole seconds of refill: deplete rounds the charge UP, so no slack is needed)
            let n = grants.len();
            let mut worst: Option<(u64, u64, u32, u32)> = None;
            for i in 0..n {
                let mut sum = 0u64;
                for j in i..n {
                    sum += grants[j].1;
                    let dt = (grants[j].0 - grants[i].0) as u64;
                    let bound = b_tokens + rate * dt;
                    if sum > bound && worst.is_none() {
                        worst = Some((sum, bound, grants[i].0, grants[j].0));
                    }
                }
                if n > 600 {
                    break;
                }
            }
            if let Some((sum, bound, a, b)) = worst {
                leg.violation("C16/burst-exceeds-bound", format!("{} tokens granted in [{}, {}] but B + R*dt = {}", sum, a, b, bound), replay);
            }
        }
    }
}

fn c16_cookie_case(leg: &mut Leg, r: &mut Rng, case_seed: u64) {
    leg.eval();
    let replay = json!({"engine": "c16-cookie", "case_seed": case_seed});
    let client_cookie = r.bytes(8);
    let key_cur = r.bytes(8);
    let key_prev = r.bytes(8);
    let key_old = r.bytes(8);
    let v6 = r.bool();
    let mk_ip = |r: &mut Rng, v6: bool| -> std::net::IpAddr {
        if v6 {
            let mut b = [0u8; 16];
            b[0] = 0x20;
            b[1] = 0x01;
            b[15] = r.u8();
            b[14] = r.u8();
            std::net::IpAddr::V6(b.into())
        } else {
            std::net::IpAddr::V4(std::net::Ipv4Addr::new(10, r.u8(), r.u8(), 1 + r.below(250) as u8))
        }
    };
    let client_ip = mk_ip(r, v6);
    let server_ip = mk_ip(r, v6);
    let mut other_client = mk_ip(r, v6);
    if other_client == client_ip {
        other_client = mk_ip(r, !v6);
    }
    let mut other_server = mk_ip(r, v6);
    if other_server == server_ip {
        other_server = mk_ip(r, !v6);
    }
    let build = |cookie_opt: Option<Vec<u8>>, cip: std::net::IpAddr, sip: std::net::IpAddr| -> Option<erbium::dns::DnsMessage> {
        let m = rn::Msg {
            id: 9,
            flags: 0x0100,
            questions: vec![rn::Question { name: rn::name_from_str("c.example"), qtype: 1, qclass: 1 }],
            opt: Some(rn::Opt { udp_size: 1232, options: cookie_opt.map(|c| vec![(10u16, c)]).unwrap_or_default(), ..Default::default() }),
            ..Default::default()
        };
        let b = rn::encode(&m, rn::Compress::None);
        let q = ev::parse(&b).ok()?;
        Some(erbium::dns::DnsMessage {
            in_size: b.len(),
            in_query: q,
            local_ip: sip,
            remote_addr: cip.with_port(33_000),
            protocol: erbium::dns::Protocol::Udp,
        })
    };
    let res = guard::guard(|| {
        let mut viol: Vec<(String, String)> = Vec::new();
        let issue_msg = build(Some(client_cookie.clone()), client_ip, server_ip).expect("query");
        // the server issues a cookie under the then-current key
        let which = r.below(3);
        let issue_key = match which {
            0 => &key_cur,
            1 => &key_prev,
            _ => &key_old,
        };
        let server_cookie = ev::cookie_make(&issue_msg, &client_cookie, issue_key);
        let mut full = client_cookie.clone();
        full.extend_from_slice(&server_cookie);
        let expect_good = which < 2;
        let check = |what: &str, cookie: Option<Vec<u8>>, cip, sip, want: u8, viol: &mut Vec<(String, String)>| {
            if let Some(m) = build(cookie, cip, sip) {
                // the property speaks about exemption only: good (2) exempts, missing (0) and bad (1) do not
                let got = ev::cookie_validate(&m, &key_cur, &key_prev);
                if (got == 2) != (want == 2) {
                    viol.push((format!("cookie/{}", what), format!("validate = {} (0 missing, 1 bad, 2 good = exempt), expected {}", got, want)));
                }
            }
        };
        check("own-cookie-same-addresses", Some(full.clone()), client_ip, server_ip, if expect_good { 2 } else { 1 }, &mut viol);
        check("cookie-from-another-client-address", Some(full.clone()), other_client, server_ip, 1, &mut viol);
        check("cookie-to-another-server-address", Some(full.clone()), client_ip, other_server, 1, &mut viol);
        let mut other_cc = full.clone();
        other_cc[r.usize(8)] ^= 1 << r.below(8);
        check("cookie-with-another-client-cookie", Some(other_cc), client_ip, server_ip, 1, &mut viol);
        let mut flipped = full.clone();
        let pos = 8 + r.usize(full.len() - 8);
        flipped[pos] ^= 1 << r.below(8);
        check("server-cookie-bit-flipped", Some(flipped), client_ip, server_ip, 1, &mut viol);
        let cut = 8 + r.range(1, (full.len() - 9) as u64) as usize;
        check("server-cookie-truncated", Some(full[..cut].to_vec()), client_ip, server_ip, 1, &mut viol);
        check("client-cookie-only", Some(client_cookie.clone()), client_ip, server_ip, 0, &mut viol);
        check("no-cookie", None, client_ip, server_ip, 0, &mut viol);
        viol
    });
    leg.class(format!("cookie|v6{}", v6));
    match res {
        Err(p) => leg.violation(format!("C16/cookie-panic/{}", p.class()), format!("{} at {}", p.message, p.location), replay),
        Ok(viol) => {
            for (sig, d) in viol {
                leg.violation(format!("C16/{}", sig), d, replay.clone());
            }
        }
    }
    let _ = hex(&[]);
}

/// The limiter the UDP listener consults (two hashed buckets per source, refusals meant to be free) and the listener's
/// own decision function, on the limiter's clock advanced per thread.
fn c16_limiter_case(leg: &mut Leg, r: &mut Rng, case_seed: u64) {
    let b_tokens = ev::GenericTokenBucket::VERIF_MAX_TOKENS as u64;
    let rate = ev::GenericTokenBucket::VERIF_TOKENS_PER_SECOND as u64;
    let refill_period = b_tokens.div_ceil(rate.max(1)) as u32;
    leg.eval();
    let replay = json!({"engine": "c16-limiter", "case_seed": case_seed});
    let via_decision = r.bool();
    let nsrc = r.range(1, 3) as usize;
    let v6 = r.bool();
    let srcs: Vec<std::net::IpAddr> = (0..nsrc)
        .map(|i| {
            if v6 {
                let mut b = [0u8; 16];
                b[0] = 0x20;
                b[1] = 0x01;
                b[13] = r.u8();
                b[14] = r.u8();
                b[15] = i as u8 + 1;
                std::net::IpAddr::V6(b.into())
            } else {
                std::net::IpAddr::V4(std::net::Ipv4Addr::new(10, r.u8(), r.u8(), i as u8 + 1))
            }
        })
        .collect();
    let steps = r.range(10, 120);
    let style = r.below(4);
    // one query/reply size pair per case, so the number of grants can be turned into tokens
    let qsize = r.range(17, 300) as usize;
    let psize = match r.below(4) {
        0 => qsize,
        1 => qsize + r.range(0, 60) as usize,
        2 => r.range(12, 100) as usize,
        _ => r.range(12, 700) as usize,
    };
    let cost = std::cmp::max((psize * 2).saturating_sub(qsize), 200) as u64;
    let refused_reply = {
        let m = rn::Msg {
            id: 9,
            flags: 0x8105, // QR, RD, rcode 5
            questions: vec![rn::Question { name: rn::name_from_str("c.example"), qtype: 1, qclass: 1 }],
            ..Default::default()
        };
        ev::parse(&rn::encode(&m, rn::Compress::None)).ok()
    };
    let mk_query = |ip: std::net::IpAddr| -> Option<erbium::dns::DnsMessage> {
        let m = rn::Msg {
            id: 9,
            flags: 0x0100,
            questions: vec![rn::Question { name: rn::name_from_str("c.example"), qtype: 1, qclass: 1 }],
            ..Default::default()
        };
        let b = rn::encode(&m, rn::Compress::None);
        Some(erbium::dns::DnsMessage {
            in_size: qsize,
            in_query: ev::parse(&b).ok()?,
            local_ip: if v6 { "2001:db8::53".parse().unwrap() } else { "10.0.0.53".parse().unwrap() },
            remote_addr: ip.with_port(33_000),
            protocol: erbium::dns::Protocol::Udp,
        })
    };
    let fake_serialised = vec![0u8; psize];
    // per source: (virtual second, granted)
    let mut hist: Vec<Vec<(u64, bool)>> = vec![Vec::new(); nsrc];
    let mut idle_checks = 0u64;
    let mut denied_total = 0u64;
    let res = guard::guard(|| {
        let rt = tokio::runtime::Builder::new_current_thread().enable_all().build().expect("runtime");
        let lim = ev::VerifLimiter::new();
        let mut viol: Vec<(String, String)> = Vec::new();
        let mut t: u64 = 0;
        let mut last_any: u64 = 0;
        for step in 0..steps {
            let dt: u32 = match style {
                0 => 0,
                1 => r.below(3) as u32,
                2 => {
                    if r.chance(1, 8) {
                        refill_period + r.below(40) as u32
                    } else {
                        r.below(2) as u32
                    }
                }
                _ => {
                    if r.chance(1, 6) {
                        r.range(50, 2 * refill_period as u64) as u32
                    } else {
                        r.below(20) as u32
                    }
                }
            };
            if dt > 0 {
                ev::limiter_clock_advance(dt);
                t += dt as u64;
            }
            let si = r.usize(nsrc);
            // idle = nothing at all from ANY source of this limiter (sources may share a bucket)
            let whole_limiter_idle = step > 0 && t - last_any >= refill_period as u64 + 1;
            let granted = if via_decision {
                match (mk_query(srcs[si]), refused_reply.as_ref()) {
                    (Some(q), Some(rep)) => !rt.block_on(lim.should_ratelimit(&q, rep, &fake_serialised)),
                    _ => return viol,
                }
            } else {
                rt.block_on(lim.check(srcs[si], cost as usize))
            };
            hist[si].push((t, granted));
            if !granted {
                denied_total += 1;
            }
            if whole_limiter_idle && cost <= b_tokens {
                idle_checks += 1;
                if !granted {
                    viol.push((
                        "limiter/quiet-source-gets-silence".into(),
                        format!("nothing was sent to this limiter for {} s (refill period {} s), yet the next refused query (cost {} tokens, reply {} / query {} octets) from {} is dropped; {} earlier attempts had been dropped", t - last_any, refill_period, cost, psize, qsize, srcs[si], denied_total - 1),
                    ));
                }
            }
            last_any = t;
        }
        viol
    });
    leg.class(format!("limiter|{}|style{}|src{}|cost{}|denied{}", if via_decision { "decision" } else { "check" }, style, nsrc, if cost == 200 { "min" } else if cost > b_tokens { "over" } else { "mid" }, denied_total.min(3)));
    leg.count("limiter_idle_gap_checks", idle_checks);
    leg.count("limiter_attempts_dropped", denied_total);
    leg.count("limiter_attempts", hist.iter().map(|h| h.len() as u64).sum());
    match res {
        Err(p) => leg.violation(format!("C16/limiter-panic/{}", p.class()), format!("{} at {}", p.message, p.location), replay),
        Ok(viol) => {
            for (sig, d) in viol {
                leg.violation(format!("C16/{}", sig), d, replay.clone());
            }
            // per source, every window: tokens granted <= 2 buckets * (B + R*dt)
            for (si, h) in hist.iter().enumerate() {
                let g: Vec<u64> = h.iter().filter(|x| x.1).map(|x| x.0).collect();
                let mut bad = None;
                for i in 0..g.len() {
                    for j in i..g.len() {
                        let tokens = (j - i + 1) as u64 * cost;
                        let bound = 2 * (b_tokens + rate * (g[j] - g[i]));
                        if tokens > bound && bad.is_none() {
                            bad = Some((tokens, bound, g[i], g[j]));
                        }
                    }
                }
                if let Some((tokens, bound, a, b)) = bad {
                    leg.violation("C16/limiter/burst-exceeds-bound", format!("source {}: {} tokens ({} per reply) granted in [{}, {}] s but 2*(B + R*dt) = {}", srcs[si], tokens, cost, a, b, bound), replay.clone());
                }
            }
        }
    }
}

/// The server's own (global) cookie keys, on tokio's paused clock: one sequence per process, in its own thread.
/// Exemption is observed the way a client would see it: a flood of refused queries through the listener's decision
/// function with a fresh limiter is either limited after the burst (not exempt) or never (exempt).
fn c16_keys_sequence(leg: &mut Leg, seed: u64) {
    let replay = json!({"engine": "c16-keys", "seed": seed});
    let mut r = Rng::derive(seed, 0xc16, 7);
    let cc = r.bytes(8);
    let a: std::net::IpAddr = std::net::IpAddr::V4(std::net::Ipv4Addr::new(10, 9, r.u8(), 1 + r.below(200) as u8));
    let a2: std::net::IpAddr = std::net::IpAddr::V4(std::net::Ipv4Addr::new(10, 8, r.u8(), 1 + r.below(200) as u8));
    let srv: std::net::IpAddr = "10.0.0.53".parse().unwrap();
    let srv2: std::net::IpAddr = "10.0.0.54".parse().unwrap();
    let build = |cookie: Vec<u8>, cip: std::net::IpAddr, sip: std::net::IpAddr| -> Option<(erbium::dns::DnsMessage, usize)> {
        let m = rn::Msg {
            id: 9,
            flags: 0x0100,
            questions: vec![rn::Question { name: rn::name_from_str("k.example"), qtype: 1, qclass: 1 }],
            opt: Some(rn::Opt { udp_size: 1232, options: vec![(10u16, cookie)], ..Default::default() }),
            ..Default::default()
        };
        let b = rn::encode(&m, rn::Compress::None);
        let q = ev::parse(&b).ok()?;
        Some((erbium::dns::DnsMessage { in_size: b.len(), in_query: q, local_ip: sip, remote_addr: cip.with_port(33_000), protocol: erbium::dns::Protocol::Udp }, b.len()))
    };
    let refused = {
        let m = rn::Msg { id: 9, flags: 0x8105, questions: vec![rn::Question { name: rn::name_from_str("k.example"), qtype: 1, qclass: 1 }], ..Default::default() };
        match ev::parse(&rn::encode(&m, rn::Compress::None)) {
            Ok(p) => p,
            Err(_) => {
                leg.inconclusive("c16-keys: cannot build a REFUSED reply");
                return;
            }
        }
    };
    let res = guard::guard(|| {
        let rt = tokio::runtime::Builder::new_current_thread().enable_all().start_paused(true).build().expect("runtime");
        let mut viol: Vec<(String, String)> = Vec::new();
        let mut counts: Vec<(String, u64)> = Vec::new();
        rt.block_on(async {
            // true = never limited in a flood of 40 (exempt); false = limited after the burst
            let exempt = |cookie: Vec<u8>, cip: std::net::IpAddr, sip: std::net::IpAddr| {
                let refused = &refused;
                async move {
                    let lim = ev::VerifLimiter::new();
                    let (msg, _) = build(cookie, cip, sip)?;
                    let mut limited = 0;
                    for _ in 0..40 {
                        if lim.should_ratelimit(&msg, refused, &[0u8; 120]).await {
                            limited += 1;
                        }
                    }
                    Some(limited == 0)
                }
            };
            let issue = |cip: std::net::IpAddr, sip: std::net::IpAddr| {
                let refused = &refused;
                let cc = cc.clone();
                async move {
                    let (msg, _) = build(cc.clone(), cip, sip)?;
                    let rep = ev::create_in_reply(&msg, refused).await;
                    let e = rep.edns.as_ref()?;
                    let (c, s) = e.get_cookie()?;
                    let s = s?;
                    let mut full = c.to_vec();
                    full.extend_from_slice(s);
                    Some(full)
                }
            };
            // (1) first key period of a fresh process: cookies forged under keys anybody can guess
            // (all-zero, all-ones, empty; every key that is one octet repeated -- 256 keys of 8 and 256 of 32 octets, what a
            // generator gives that fills the key from a single random octet; counting octets)
            let mut guessable: Vec<(String, Vec<u8>)> = vec![("all-zero-8".into(), vec![0u8; 8]), ("all-ones-8".into(), vec![0xffu8; 8]), ("empty".into(), vec![]), ("all-zero-32".into(), vec![0u8; 32])];
            for b in 1..=254u8 {
                guessable.push(("one-octet-repeated-8".into(), vec![b; 8]));
                guessable.push(("one-octet-repeated-32".into(), vec![b; 32]));
            }
            guessable.push(("counting-8".into(), (0u8..8).collect()));
            guessable.push(("counting-from-1-8".into(), (1u8..9).collect()));
            for (kname, key) in guessable {
                if let Some((msg, _)) = build(cc.clone(), a, srv) {
                    let mut full = cc.clone();
                    full.extend_from_slice(&ev::cookie_make(&msg, &cc, &key));
                    if exempt(full, a, srv).await == Some(true) {
                        viol.push((format!("keys/forged-under-guessable-key-exempts/{}", kname), format!("in the first key period of a fresh process a server cookie computed offline under the {} key exempts {} from the limiter", kname, a)));
                    }
                    counts.push(("keys_forged_cookies_tried".into(), 1));
                }
            }
            // (2) a cookie the server issues now
            let c0 = match issue(a, srv).await {
                Some(c) => c,
                None => {
                    counts.push(("keys_no_cookie_issued".into(), 1));
                    return;
                }
            };
            let own = exempt(c0.clone(), a, srv).await;
            counts.push(("keys_issued_cookie_exempts_owner".into(), (own == Some(true)) as u64));
            if exempt(c0.clone(), a2, srv).await == Some(true) {
                viol.push(("keys/issued-cookie-exempts-another-address".into(), format!("cookie issued to {} exempts {}", a, a2)));
            }
            if exempt(c0.clone(), a, srv2).await == Some(true) {
                viol.push(("keys/issued-cookie-exempts-at-another-server-address".into(), format!("cookie issued by {} exempts at {}", srv, srv2)));
            }
            // (3) key periods last at most 36 h; the server is queried once per period
            tokio::time::advance(Duration::from_secs(37 * 3600)).await;
            let prev = exempt(c0.clone(), a, srv).await;
            counts.push(("keys_cookie_valid_in_following_period".into(), (prev == Some(true)) as u64));
            tokio::time::advance(Duration::from_secs(37 * 3600)).await;
            let _ = exempt(cc.clone(), a2, srv).await; // some traffic
            tokio::time::advance(Duration::from_secs(1)).await;
            if exempt(c0.clone(), a, srv).await == Some(true) {
                viol.push(("keys/cookie-older-than-two-key-periods-exempts/server-queried-every-period".into(), "a cookie issued 74 h ago (key periods last 24-36 h, the server saw queries in each) still exempts its owner".into()));
            }
            // (4) the same, but the server hears nothing at all in between
            if let Some(c1) = issue(a, srv).await {
                let _ = exempt(c1.clone(), a, srv).await;
                tokio::time::advance(Duration::from_secs(80 * 3600)).await;
                if exempt(c1.clone(), a, srv).await == Some(true) {
                    viol.push(("keys/cookie-older-than-two-key-periods-exempts/server-idle-in-between".into(), "a cookie issued 80 h ago (key periods last 24-36 h; no query reached the server in between) still exempts its owner".into()));
                }
                counts.push(("keys_idle_gap_sequences".into(), 1));
            }
        });
        (viol, counts)
    });
    leg.eval();
    leg.class("keys-sequence");
    match res {
        Err(p) => leg.violation(format!("C16/keys-panic/{}", p.class()), format!("{} at {}", p.message, p.location), replay),
        Ok((viol, counts)) => {
            for (k, n) in counts {
                leg.count(&k, n);
            }
            for (sig, d) in viol {
                leg.violation(format!("C16/{}", sig), d, replay.clone());
            }
        }
    }
}

/// The limiter checks under a read lock and charges under a write lock, so K in-flight queries of one source can all be granted
/// on the same tokens.  That overdraft is tolerated -- but it has to be paid back: over any history the tokens granted stay
/// below B + R*dt + (K-1)*cost.  Replayed here on one bucket: K checks against the same state, then the charges.
fn c16_racy_bucket_case(leg: &mut Leg, r: &mut Rng, case_seed: u64) {
    let b_tokens = ev::GenericTokenBucket::VERIF_MAX_TOKENS as u64;
    let rate = ev::GenericTokenBucket::VERIF_TOKENS_PER_SECOND as u64;
    leg.eval();
    let replay = json!({"engine": "c16-racy-bucket", "case_seed": case_seed});
    let k = r.range(2, 6);
    let cost = *r.pick(&[200u32, 250, 500, 1000]);
    let steps = r.range(20, 80);
    let start: u32 = 1_700_000_000 + r.below(1_000_000) as u32;
    let res = guard::guard(|| {
        let mut bucket = ev::GenericTokenBucket::new();
        let mut t = start;
        set_now(t);
        let mut granted: u64 = 0;
        let mut worst: Option<(u64, u64, u32)> = None;
        for _ in 0..steps {
            t += match r.below(4) {
                0 => 0,
                1 => r.range(1, 60) as u32,
                2 => r.range(60, 300) as u32,
                _ => r.range(300, 700) as u32,
            };
            set_now(t);
            let oks: Vec<bool> = (0..k).map(|_| bucket.check::<VClock>(cost)).collect();
            for ok in oks {
                if ok {
                    bucket.deplete::<VClock>(cost);
                    granted += cost as u64;
                }
            }
            let bound = b_tokens + rate * (t - start) as u64 + (k - 1) * cost as u64;
            if granted > bound && worst.is_none() {
                worst = Some((granted, bound, t - start));
            }
        }
        worst
    });
    leg.class(format!("racy-bucket|k{}|cost{}", k, cost));
    leg.count("racy_bucket_histories", 1);
    match res {
        Err(p) => leg.violation(format!("C16/bucket-panic/{}", p.class()), format!("{} at {}", p.message, p.location), replay),
        Ok(Some((g, b, dt))) => leg.violation(
            "C16/overdraft-never-paid-back",
            format!("{} in-flight checks per arrival, cost {}: {} tokens granted within {} s, bound B + R*dt + (K-1)*cost = {}", k, cost, g, dt, b),
            replay,
        ),
        Ok(None) => {}
    }
}

pub fn run_c16(seed: u64, thorough: bool, shards: u64) -> Leg {
    let mut total = Leg::new(
        "c16-bucket-cookie-inproc",
        "C16",
        "GenericTokenBucket under a virtual clock (start times incl. near 2^31 and 2^32; arrival styles: flood, steady, bursts with idle gaps, sparse; costs 1..3B): every window of grants checked against B + R*dt with B,R read from the code's constants, quiet sources (idle >= B/R) must be granted costs <= B; cookie issue/validate with explicit keys: same addresses under current/previous/older key, other client address, other server address, other client cookie, flipped, truncated, absent; the check-then-charge race of the limiter replayed on one bucket (K in-flight checks against the same state, then the charges): the overdraft must be paid back, tokens granted <= B + R*dt + (K-1)*cost over every history; the listener's IpRateLimiter (two hashed buckets per source) and its should_ratelimit decision on a per-thread offset of the limiter's own clock, 1-3 sources, floods/bursts/idle gaps: per source every window of grants <= 2*(B + R*dt) tokens at the documented cost max(2*reply-query, 200), and after the whole limiter was idle for the refill period the next refused query must be answered however many attempts were dropped before; the process-wide cookie keys on tokio's paused clock (once per run): cookies forged under guessable keys in the first key period, an issued cookie from another client/server address, and an issued cookie after more than two key periods (server queried in every period / not at all) must not exempt; distinct = (arrival style, start class, grants) or (cookie, family) or (limiter, entry, style, sources, cost class, drops)",
    );
    total.floor = 500;
    let n: u64 = if thorough { 600_000 } else { 16_000 };
    let mut handles = Vec::new();
    {
        // the process-wide cookie keys: first, alone, while they are still in their initial state
        let mut leg = total.child();
        let h = std::thread::spawn(move || {
            c16_keys_sequence(&mut leg, seed);
            leg
        });
        match h.join() {
            Ok(l) => total.merge(l),
            Err(_) => total.inconclusive("keys thread died"),
        }
    }
    for shard in 0..shards {
        let mut leg = total.child();
        handles.push(std::thread::spawn(move || {
            for i in 0..n / shards {
                let case_seed = seed.wrapping_mul(999_983).wrapping_add(shard * 7_000_003 + i);
                let mut r = Rng::new(case_seed);
                match i % 4 {
                    0 => c16_bucket_case(&mut leg, &mut r, case_seed),
                    1 => c16_cookie_case(&mut leg, &mut r, case_seed),
                    2 => c16_racy_bucket_case(&mut leg, &mut r, case_seed),
                    _ => c16_limiter_case(&mut leg, &mut r, case_seed),
                }
            }
            leg.sample(json!({"bucket_capacity_tokens": ev::GenericTokenBucket::VERIF_MAX_TOKENS, "tokens_per_second": ev::GenericTokenBucket::VERIF_TOKENS_PER_SECOND}));
            leg
        }));
    }
    for h in handles {
        match h.join() {
            Ok(l) => total.merge(l),
            Err(_) => total.inconclusive("shard thread died"),
        }
    }
    total
}

pub fn replay_c16(v: &serde_json::Value) -> Leg {
    let mut leg = Leg::new("c16-replay", "C16", "replay of one recorded case");
    let cs = v["case_seed"].as_u64().unwrap_or(0);
    let mut r = Rng::new(cs);
    if v["engine"].as_str() == Some("c16-cookie") {
        c16_cookie_case(&mut leg, &mut r, cs);
    } else if v["engine"].as_str() == Some("c16-racy-bucket") {
        c16_racy_bucket_case(&mut leg, &mut r, cs);
    } else if v["engine"].as_str() == Some("c16-limiter") {
        c16_limiter_case(&mut leg, &mut r, cs);
    } else {
        c16_bucket_case(&mut leg, &mut r, cs);
    }
    leg
}

/// Constants for the end-to-end rig.
pub fn consts() -> serde_json::Value {
    json!({"bucket_capacity_tokens": ev::GenericTokenBucket::VERIF_MAX_TOKENS, "tokens_per_second": ev::GenericTokenBucket::VERIF_TOKENS_PER_SECOND})
}
