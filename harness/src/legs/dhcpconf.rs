//! C02 (exactly the configured addresses) and C11 (policy selection / option override) against
//! the independent model of erbium.conf(5) in model/policy.rs.

use crate::guard;
use crate::model::policy as mp;
use crate::refcodec::dhcp as rd;
use crate::report::{Leg, hex};
use crate::rng::Rng;
use erbium::dhcp;
use serde_json::{Value, json};
use std::collections::{BTreeMap, BTreeSet};
use std::net::Ipv4Addr;

fn ipj(x: u32) -> String {
    Ipv4Addr::from(x).to_string()
}

pub struct Case {
    pub top: mp::Top,
    pub policies: Vec<mp::Pol>,
    pub yaml: String,
    pub ctx: mp::GenCtx,
}

pub fn top_yaml(top: &mp::Top) -> String {
    let mut s = String::from("---\n");
    if let Some(d) = &top.dns_servers {
        s += &format!("dns-servers: [{}]\n", d.iter().map(|x| format!("'{}'", x)).collect::<Vec<_>>().join(", "));
    }
    if let Some(d) = &top.dns_search {
        s += &format!("dns-search: [{}]\n", d.iter().map(|x| format!("'{}'", x)).collect::<Vec<_>>().join(", "));
    }
    if let Some(c) = &top.captive {
        s += &format!("captive-portal: '{}'\n", c);
    }
    if !top.addresses.is_empty() {
        s += &format!("addresses: [{}]\n", top.addresses.iter().map(|(a, l)| format!("{}/{}", Ipv4Addr::from(*a), l)).collect::<Vec<_>>().join(", "));
    }
    s
}

pub fn gen_case(r: &mut Rng, for_c02: bool, big_prefix: Option<u8>) -> Case {
    let chaddrs: Vec<Vec<u8>> = (0..4).map(|i| vec![0, 0, 0x5e, 0, 0x53, i as u8]).collect();
    // subnets in play
    let nsub = r.range(1, 3) as usize;
    let mut subnets = Vec::new();
    for i in 0..nsub {
        let len = if i == 0 && big_prefix.is_some() {
            big_prefix.unwrap()
        } else if for_c02 {
            r.range(24, 30) as u8
        } else {
            r.range(23, 28) as u8
        };
        let base = if len < 16 { u32::from(Ipv4Addr::new(10 + 16 * i as u8, 0, 0, 0)) } else { u32::from(Ipv4Addr::new(10, 40 + i as u8, 0, 0)) };
        let mask = u32::MAX << (32 - len as u32);
        let net = (base | (r.u32() & 0x0000_ff00)) & mask;
        subnets.push((net, len));
    }
    let ctx = mp::GenCtx { chaddrs, subnets: subnets.clone() };
    let mut top = mp::Top::default();
    // top-level addresses: some subnets, sometimes written with host bits (the interface address)
    for (i, (net, len)) in subnets.iter().enumerate() {
        if i == 0 || r.bool() {
            let written = if r.chance(1, 4) && !for_c02 { net + 1 } else { *net };
            top.addresses.push((written, *len));
        }
    }
    if !for_c02 && !top.addresses.is_empty() && r.chance(1, 4) {
        // overlapping prefixes: a wider one that covers the first subnet, written before or after it (the first one listed
        // that contains the receiving address is the matched subnet)
        let (a, l) = top.addresses[0];
        let wl = l - r.range(1, 3) as u8;
        let wide = (a & (u32::MAX << (32 - wl as u32)), wl);
        if r.bool() {
            top.addresses.insert(0, wide);
        } else {
            top.addresses.insert(1, wide);
        }
    }
    if r.chance(1, 8) {
        top.addresses.clear();
    }
    if !for_c02 {
        if r.chance(2, 3) {
            let n = r.range(0, 4);
            top.dns_servers = Some(
                (0..n)
                    .map(|_| match r.below(4) {
                        0 => "$self4".to_string(),
                        1 => "$self6".to_string(),
                        2 => "2001:db8::53".to_string(),
                        _ => format!("192.0.2.{}", r.range(1, 250)),
                    })
                    .collect(),
            );
        }
        if r.bool() {
            let n = r.range(0, 3);
            top.dns_search = Some((0..n).map(|_| r.pick(&["example.com", "lan", "a.b.example.net"]).to_string()).collect());
        }
        if r.chance(1, 3) {
            top.captive = Some("https://portal.example/".into());
        }
    }
    let npol = r.range(0, 3);
    let policies: Vec<mp::Pol> = (0..npol).map(|_| mp::gen_pol(r, &ctx, 1, true, None)).collect();
    let mut yaml = top_yaml(&top);
    if yaml.trim() == "---" && policies.is_empty() {
        yaml += "dns-search: []\n";
    }
    if !policies.is_empty() {
        yaml += "dhcp-policies:\n";
        for p in &policies {
            p.yaml(4, &mut yaml);
        }
    }
    Case { top, policies, yaml, ctx }
}

fn request_bytes(q: &mp::Request, kind: u8, xid: u32) -> Vec<u8> {
    let mut msg = rd::Msg {
        hlen: q.chaddr.len() as u8,
        chaddr: q.chaddr.clone(),
        xid,
        giaddr: Ipv4Addr::from(q.giaddr),
        hops: if q.giaddr != 0 { 1 } else { 0 },
        ..Default::default()
    };
    msg.options.push((53, vec![kind]));
    msg.options.push((55, q.paramlist.clone()));
    for (c, v) in &q.opts {
        msg.options.push((*c, v.clone()));
    }
    rd::encode(&msg)
}

enum Served {
    Reply(u32, BTreeMap<u8, Vec<u8>>),
    Refused(String),
}

fn serve(conf: &erbium::config::Config, pool: &mut dhcp::pool::Pool, q: &mp::Request, kind: u8, xid: u32) -> Result<Served, guard::Panicked> {
    let bytes = request_bytes(q, kind, xid);
    let b2 = bytes.clone();
    guard::timed(&bytes, move || {
        let pkt = dhcp::dhcppkt::parse(&b2).expect("own request");
        let sip = Ipv4Addr::from(q.serverip);
        let req = dhcp::DHCPRequest {
            pkt,
            serverip: sip,
            ifindex: 2,
            if_mtu: q.if_mtu,
            if_router: q.if_router.map(Ipv4Addr::from),
        };
        match dhcp::handle_pkt(pool, &req, [sip].into_iter().collect(), conf) {
            Ok(rep) => {
                let mut m = BTreeMap::new();
                for (k, v) in rep.options.other.iter() {
                    let mut code = Vec::new();
                    use erbium::dhcp::dhcppkt::Serialise as _;
                    k.serialise(&mut code);
                    m.insert(code[0], v.clone());
                }
                Served::Reply(u32::from(rep.yiaddr), m)
            }
            Err(e) => Served::Refused(format!("{:?}", e).split('(').next().unwrap_or("").to_string()),
        }
    })
}

// ------------------------------------------------------------------------------------------ C02

fn c02_case(leg: &mut Leg, r: &mut Rng, case_seed: u64, big_prefix: Option<u8>) {
    let case = gen_case(r, true, big_prefix);
    let replay = json!({"engine": "c02", "case_seed": case_seed, "big_prefix": big_prefix, "yaml": case.yaml});
    let conf = match guard::guard(|| erbium::config::verif_load_config_from_string(&case.yaml)) {
        Err(p) => {
            leg.count("loader_panicked_C19_subject", 1);
            let _ = p;
            return;
        }
        Ok(Err(e)) => {
            leg.eval();
            leg.violation("C02/documented-configuration-rejected", format!("{} -- {}", e, case.yaml), replay);
            return;
        }
        Ok(Ok(c)) => c,
    };
    let c = conf.try_read().expect("lock");
    if leg.wants_sample() {
        leg.sample(json!({"yaml": case.yaml}));
    }
    // which interface addresses to serve from: inside each subnet (first host, a middle one, last host) and outside
    let mut ifaces: Vec<u32> = Vec::new();
    for (net, len) in &case.ctx.subnets {
        let size = 1u64 << (32 - *len as u32);
        ifaces.push(net + 1);
        if size > 4 {
            ifaces.push(net + (size / 2) as u32);
            ifaces.push(net + (size - 2) as u32);
        }
    }
    ifaces.push(u32::from(Ipv4Addr::new(172, 31, 0, 1)));
    let iface = *r.pick(&ifaces);
    let generic = |i: u32| -> Vec<u8> { vec![0x02, 0xaa, (i >> 16) as u8, (i >> 8) as u8, i as u8, 0x01] };
    // what the kernel's routing table says about the receiving interface: no default route, the default route leaves through
    // another interface (= our own address), or it leaves through this very interface towards some other host of the subnet.
    // None of this is configuration; the documented address set does not depend on it.
    let if_router: Option<u32> = match r.below(4) {
        0 => None,
        1 => Some(iface),
        2 => Some(iface.wrapping_add(1)),
        _ => Some(iface.wrapping_sub(1)),
    };
    let base_req = |chaddr: Vec<u8>| mp::Request {
        chaddr,
        serverip: iface,
        opts: BTreeMap::new(),
        paramlist: vec![1, 3, 6],
        if_mtu: Some(1500),
        if_router,
        giaddr: 0,
    };
    // ---- (b) set observation on the derived default policy
    {
        let q = base_req(generic(0));
        let bytes = request_bytes(&q, 1, 1);
        let res = guard::timed(case.yaml.as_bytes(), || {
            let pkt = dhcp::dhcppkt::parse(&bytes).expect("own request");
            let req = dhcp::DHCPRequest { pkt, serverip: Ipv4Addr::from(iface), ifindex: 2, if_mtu: Some(1500), if_router: if_router.map(Ipv4Addr::from) };
            let d = dhcp::build_default_config(&c, &req);
            d.policies
                .iter()
                .map(|p| (p.match_subnet.map(|s| (u32::from(s.addr), s.prefixlen)), p.apply_address.clone()))
                .collect::<Vec<_>>()
        });
        leg.eval();
        let all_used: BTreeSet<u32> = case.policies.iter().flat_map(|p| p.used_addresses()).collect();
        match res {
            Err(p) => leg.violation(format!("C02/panic/{}", p.class()), format!("{} at {}", p.message, p.location), replay.clone()),
            Ok(v) => {
                for (sub, set) in v {
                    let (net, len) = match sub {
                        Some(x) => x,
                        None => continue,
                    };
                    let set = match set {
                        Some(s) => s,
                        None => continue,
                    };
                    let size = 1u64 << (32 - len as u32);
                    let first = net + 1;
                    let last = net + (size - 2) as u32;
                    leg.class(format!("default-pool|/{}|iface-{}", len, if iface == first { "first" } else if iface == last { "last" } else if iface & (u32::MAX << (32 - len as u32)) == net { "inside" } else { "outside" }));
                    let inside = |x: u32| x >= first && x <= last;
                    let excluded = all_used.iter().filter(|x| inside(**x)).count() as u64 + if inside(iface) && !all_used.contains(&iface) { 1 } else { 0 };
                    let want = size - 2 - excluded;
                    let contains = |x: u32| set.contains(&Ipv4Addr::from(x));
                    if contains(net) || contains(net + (size - 1) as u32) {
                        leg.violation("C02/network-or-broadcast-address-in-pool", format!("{}/{}", ipj(net), len), replay.clone());
                    }
                    if contains(iface) {
                        leg.violation("C02/servers-own-address-in-pool", format!("{} in pool of {}/{}", ipj(iface), ipj(net), len), replay.clone());
                    }
                    if let Some(u) = all_used.iter().find(|u| contains(**u)) {
                        leg.violation("C02/address-used-by-a-policy-in-default-pool", ipj(*u), replay.clone());
                    }
                    for (what, x) in [("first-host", first), ("last-host", last)] {
                        if x != iface && !all_used.contains(&x) && !contains(x) {
                            leg.violation(format!("C02/documented-address-never-leased/{}-of-addresses-prefix", what), format!("{} missing from the pool of {}/{} (interface {})", ipj(x), ipj(net), len, ipj(iface)), replay.clone());
                        }
                    }
                    if set.len() as u64 != want {
                        let sig = if set.len() as u64 + 1 == want { "documented-address-never-leased/pool-one-short" } else { "default-pool-size" };
                        leg.violation(format!("C02/{}", sig), format!("{}/{}: pool has {} addresses, documented set has {}", ipj(net), len, set.len(), want), replay.clone());
                    }
                }
            }
        }
    }
    if big_prefix.map(|l| l < 20).unwrap_or(false) {
        return; // draining is not affordable here; the set observation above decides
    }
    // ---- (a) drain observation
    // hosts that are granted a single address, then anonymous clients until refusal
    let mut xid = 10;
    for ch in &case.ctx.chaddrs {
        let q = base_req(ch.clone());
        let m = mp::model(&case.top, &case.policies, &q);
        // only single-address grants are promised to a specific host
        if let Some(p) = &m.pool {
            if p.len() == 1 && p.iter().next() != Some(&iface) {
                let want = *p.iter().next().unwrap();
                xid += 1;
                leg.eval();
                leg.class("reservation");
                // a fresh store per host: a one-address pool may be shared by several hosts, and
                // only the first to ask is promised the address
                let mut pool = match dhcp::pool::Pool::new_in_memory() {
                    Ok(p) => p,
                    Err(_) => return,
                };
                match serve(&c, &mut pool, &q, 1, xid) {
                    Err(pn) => leg.violation(format!("C02/panic/{}", pn.class()), format!("{} at {}", pn.message, pn.location), replay.clone()),
                    Ok(Served::Reply(y, _)) => {
                        if y != want {
                            leg.violation("C02/reserved-host-got-another-address", format!("host {} is granted only {} but got {}", hex(ch), ipj(want), ipj(y)), replay.clone());
                        }
                    }
                    Ok(Served::Refused(e)) => leg.violation("C02/reserved-host-refused", format!("host {} granted {} but refused: {}", hex(ch), ipj(want), e), replay.clone()),
                }
            }
        }
    }
    let q0 = base_req(generic(1));
    let m0 = mp::model(&case.top, &case.policies, &q0);
    let d: BTreeSet<u32> = m0.pool.clone().unwrap_or_default();
    if d.len() > 64 {
        leg.count("drain_skipped_pool_larger_than_64", 1);
        return;
    }
    let mut pool = match dhcp::pool::Pool::new_in_memory() {
        Ok(p) => p,
        Err(_) => return,
    };
    let mut got: BTreeSet<u32> = BTreeSet::new();
    let sub = case.ctx.subnets.iter().find(|(n, l)| iface & (u32::MAX << (32 - *l as u32)) == *n).copied();
    leg.class(format!("drain|size{}|{}", d.len().min(9), if m0.pool.is_none() { "nopool" } else { "pool" }));
    // the server's own address is promised never to be leased, whatever the configuration lists
    let mut d_eff = d.clone();
    let serverip_listed = d_eff.remove(&iface);
    if serverip_listed {
        leg.count("servers_address_listed_in_explicit_pool", 1);
    }
    for i in 0..(d.len() as u32 + 2) {
        let q = base_req(generic(100 + i));
        xid += 1;
        leg.eval();
        match serve(&c, &mut pool, &q, 1, xid) {
            Err(pn) => {
                leg.violation(format!("C02/panic/{}", pn.class()), format!("{} at {}", pn.message, pn.location), replay.clone());
                return;
            }
            Ok(Served::Reply(y, _)) => {
                if y == iface {
                    // an explicit apply-address / apply-range / apply-subnet that lists the interface's own
                    // address is a different (known) matter from the derived pool handing it out
                    let sig = if serverip_listed { "C02/servers-own-address-leased/listed-by-an-explicit-policy-pool" } else { "C02/servers-own-address-leased/from-derived-pool" };
                    leg.violation(sig, format!("{} (the receiving interface's address) was leased; pool {:?}", ipj(y), d.iter().map(|x| ipj(*x)).collect::<Vec<_>>()), replay.clone());
                    return;
                }
                if !d.contains(&y) {
                    let what = match sub {
                        Some((n, l)) if y == n => "network-address",
                        Some((n, l)) if y == n | !(u32::MAX << (32 - l as u32)) => "broadcast-address",
                        _ => "address-outside-documented-set",
                    };
                    leg.violation(format!("C02/leased-{}", what), format!("{} leased but the documented set is {:?}", ipj(y), d.iter().map(|x| ipj(*x)).collect::<Vec<_>>()), replay.clone());
                    return;
                }
                if !got.insert(y) {
                    leg.violation("C02/same-address-to-two-clients-while-draining", ipj(y), replay.clone());
                    return;
                }
            }
            Ok(Served::Refused(_)) => break,
        }
    }
    if got != d_eff {
        let missing: Vec<String> = d_eff.difference(&got).map(|x| ipj(*x)).collect();
        let sig = match sub {
            Some((n, l)) if d_eff.difference(&got).all(|x| *x == (n | !(u32::MAX << (32 - l as u32))) - 1) => "documented-address-never-leased/last-host-of-subnet",
            _ => "documented-address-never-leased",
        };
        leg.violation(format!("C02/{}", sig), format!("never leased: {:?} (documented set has {} addresses, {} were leased)", missing, d_eff.len(), got.len()), replay);
    }
}

pub fn run_c02(seed: u64, thorough: bool, shards: u64) -> Leg {
    let mut total = Leg::new(
        "c02-address-sets-inproc",
        "C02",
        "configurations (top-level addresses /8../30, nested dhcp-policies up to depth 3 with apply-address / apply-range / apply-subnet and per-host reservations) loaded by the real loader; (a) drain: reserved hosts then anonymous clients DISCOVER until refusal, leased set compared with the documented set D(config, client, interface); (b) set: the derived default pool compared with D by size and boundary membership for every prefix length; distinct = (observation, prefix length, interface position) or (drain, pool size)",
    );
    total.floor = 300;
    let n: u64 = if thorough { 40_000 } else { 640 };
    let mut handles = Vec::new();
    for shard in 0..shards {
        let mut leg = total.child();
        handles.push(std::thread::spawn(move || {
            for i in 0..n / shards {
                let case_seed = seed.wrapping_mul(1_000_117).wrapping_add(shard * 6_000_011 + i);
                let mut r = Rng::new(case_seed);
                // prefix lengths: every length 16..30 is cycled through; 12..15 sampled; 8..11 thorough only (one shard at a time: ~1 GB each)
                let big = match i % 4 {
                    0 => Some(16 + ((i / 4 + shard) % 15) as u8),
                    1 if i < 8 => Some(12 + ((shard + i) % 4) as u8),
                    _ => None,
                };
                c02_case(&mut leg, &mut r, case_seed, big);
            }
            leg
        }));
    }
    for h in handles {
        match h.join() {
            Ok(l) => total.merge(l),
            Err(_) => total.inconclusive("shard thread died"),
        }
    }
    if thorough {
        // /8../11: hundreds of megabytes per configuration, so one at a time
        for len in 8u8..12 {
            let case_seed = seed.wrapping_mul(31).wrapping_add(len as u64);
            let mut r = Rng::new(case_seed);
            c02_case(&mut total, &mut r, case_seed, Some(len));
        }
    }
    total
}

pub fn replay_c02(v: &Value) -> Leg {
    let mut leg = Leg::new("c02-replay", "C02", "replay of one recorded case");
    let cs = v["case_seed"].as_u64().unwrap_or(0);
    let mut r = Rng::new(cs);
    c02_case(&mut leg, &mut r, cs, v["big_prefix"].as_u64().map(|x| x as u8));
    leg
}

// ------------------------------------------------------------------------------------------ C11

fn c11_case(leg: &mut Leg, r: &mut Rng, case_seed: u64) {
    let case = gen_case(r, false, None);
    let replay = json!({"engine": "c11", "case_seed": case_seed, "yaml": case.yaml});
    let conf = match guard::guard(|| erbium::config::verif_load_config_from_string(&case.yaml)) {
        Err(_) => {
            leg.count("loader_panicked_C19_subject", 1);
            return;
        }
        Ok(Err(e)) => {
            leg.eval();
            leg.violation("C11/documented-configuration-rejected", format!("{} -- {}", e, case.yaml), replay);
            return;
        }
        Ok(Ok(c)) => c,
    };
    let c = conf.try_read().expect("lock");
    if leg.wants_sample() {
        leg.sample(json!({"yaml": case.yaml}));
    }
    let host_bits = case.top.addresses.iter().any(|(a, l)| a & !(u32::MAX << (32 - *l as u32)) != 0);
    for k in 0..12 {
        // a request
        let (net, len) = *r.pick(&case.ctx.subnets);
        let size = 1u64 << (32 - len as u32);
        let serverip = match r.below(6) {
            0 => u32::from(Ipv4Addr::new(172, 31, 0, 1)),
            _ => net + 1 + r.below(size - 2) as u32,
        };
        let chaddr = if r.chance(2, 3) { r.pick(&case.ctx.chaddrs).clone() } else { vec![2, 9, 9, 9, 9, k as u8] };
        let mut opts = BTreeMap::new();
        // client options: sometimes exactly what a policy matches on
        let mut wanted: Vec<(u8, Vec<u8>)> = Vec::new();
        fn collect(p: &mp::Pol, out: &mut Vec<(u8, Vec<u8>)>) {
            for (c, v) in &p.match_opts {
                if let Some(v) = v {
                    out.push((*c, v.bytes()));
                }
            }
            for ch in &p.children {
                collect(ch, out);
            }
        }
        for p in &case.policies {
            collect(p, &mut wanted);
        }
        for (c, v) in wanted {
            if r.chance(1, 2) {
                opts.insert(c, v);
            }
        }
        if r.chance(1, 4) {
            opts.insert(12, b"otherhost".to_vec());
        }
        let mut paramlist: Vec<u8> = match r.below(5) {
            0 => vec![],
            1 => mp::OPTIONS.iter().map(|(_, c, _)| *c).collect(),
            _ => mp::OPTIONS.iter().map(|(_, c, _)| *c).filter(|_| r.chance(2, 3)).collect(),
        };
        // codes the configuration knows nothing about, incl. site-specific ones (128..254) and codes that differ from a
        // configured option only in the top bit: asking for them must not make anything else appear
        if r.chance(1, 2) {
            for _ in 0..r.range(1, 8) {
                let c = match r.below(3) {
                    0 => mp::OPTIONS[r.usize(mp::OPTIONS.len())].1 | 0x80,
                    1 => r.range(128, 254) as u8,
                    _ => r.range(1, 254) as u8,
                };
                if !mp::OPTIONS.iter().any(|(_, k, _)| *k == c) && ![51u8, 53, 54, 55, 121, 255, 0, 52].contains(&c) {
                    paramlist.push(c);
                }
            }
        }
        let mut opts = opts;
        if r.chance(1, 3) {
            // "maximum DHCP message size": which options a client is sent does not depend on it
            let v = *r.pick(&[576u16, 577, 600, 640, 700, 800, 1024, 1500]);
            opts.insert(57, v.to_be_bytes().to_vec());
        }
        let q = mp::Request {
            chaddr,
            serverip,
            opts,
            paramlist,
            if_mtu: if r.chance(3, 4) { Some(*r.pick(&[1500u32, 1280, 9000])) } else { None },
            if_router: if r.chance(2, 3) { Some(net + 1) } else { None },
            giaddr: 0,
        };
        let want = mp::model(&case.top, &case.policies, &q);
        let mut pool = match dhcp::pool::Pool::new_in_memory() {
            Ok(p) => p,
            Err(_) => return,
        };
        leg.eval();
        let kind = if r.bool() { 1 } else { 3 };
        match serve(&c, &mut pool, &q, kind, 500 + k) {
            Err(p) => {
                leg.violation(format!("C11/panic/{}", p.class()), format!("{} at {}", p.message, p.location), replay.clone());
                return;
            }
            Ok(Served::Refused(e)) => {
                leg.count("requests_refused", 1);
                // a request is refused when no pool applies; the model must agree
                let pool_empty = want.pool.as_ref().map(|p| p.iter().all(|x| *x == q.serverip)).unwrap_or(true);
                if !pool_empty && e != "PoolError" {
                    leg.violation("C11/refused-although-a-pool-applies", format!("{} (model pool has {} addresses)", e, want.pool.as_ref().map(|p| p.len()).unwrap_or(0)), replay.clone());
                }
                leg.class(format!("refused|{}", e));
            }
            Ok(Served::Reply(_, got)) => {
                leg.count("replies_compared", 1);
                // normalise: explicit unset == absent; empty list value == absent; ignore 51/53/54 and 121
                let mut w: BTreeMap<u8, Vec<u8>> = BTreeMap::new();
                for (c, v) in &want.opts {
                    if let Some(v) = v {
                        if !v.is_empty() {
                            w.insert(*c, v.clone());
                        }
                    }
                }
                let mut g: BTreeMap<u8, Vec<u8>> = BTreeMap::new();
                for (c, v) in &got {
                    if [51u8, 53, 54, 121].contains(c) || v.is_empty() {
                        continue;
                    }
                    g.insert(*c, v.clone());
                }
                let applied_depth = {
                    fn depth(list: &[mp::Pol], q: &mp::Request) -> usize {
                        for p in list {
                            if mp::applies(p, q) {
                                return 1 + depth(&p.children, q);
                            }
                        }
                        0
                    }
                    depth(&case.policies, &q)
                };
                leg.class(format!("reply|depth{}|opts{}|pl{}|hostbits{}", applied_depth, w.len().min(6), q.paramlist.len().min(4), host_bits));
                // The same request through a relay agent.  The manual lets match-subnet look at the relay's address, so only
                // configurations without any match-subnet condition are used, and only the DNS servers are compared: "$self4"
                // stands for the address the request was RECEIVED on, relay or not.
                fn any_match_subnet(list: &[mp::Pol]) -> bool {
                    list.iter().any(|p| p.match_subnet.is_some() || any_match_subnet(&p.children))
                }
                if k % 3 == 0 && !any_match_subnet(&case.policies) && g.contains_key(&6) {
                    let mut qr = q.clone();
                    qr.giaddr = u32::from(Ipv4Addr::new(10, 250, (k % 200) as u8, 1));
                    if let Ok(mut pool2) = dhcp::pool::Pool::new_in_memory() {
                        leg.eval();
                        if let Ok(Served::Reply(_, got2)) = serve(&c, &mut pool2, &qr, kind, 900 + k) {
                            leg.count("relayed_requests_compared", 1);
                            if got2.get(&6) != g.get(&6) {
                                leg.violation(
                                    "C11/self4-differs-for-a-relayed-request",
                                    format!("dns-servers for the direct request {:?}, for the same request relayed through {}: {:?} (received on {})", g.get(&6).map(|x| hex(x)), ipj(qr.giaddr), got2.get(&6).map(|x| hex(x)), ipj(q.serverip)),
                                    replay.clone(),
                                );
                            }
                        }
                    }
                }
                if w != g {
                    let codes: BTreeSet<u8> = w.keys().chain(g.keys()).copied().collect();
                    for code in codes {
                        let (a, b) = (w.get(&code), g.get(&code));
                        if a != b {
                            let mut class = match (a, b) {
                                (Some(_), None) => "option-missing",
                                (None, Some(_)) => {
                                    if q.paramlist.contains(&code) { "option-sent-although-unset-or-not-applicable" } else { "option-sent-although-not-requested" }
                                }
                                _ => "option-value",
                            }
                            .to_string();
                            if host_bits && (code == 26 || code == 3) && a.is_some() && b.is_none() {
                                class = "interface-defaults-lost-when-addresses-written-with-host-bits".into();
                            }
                            leg.violation(
                                format!("C11/{}/{}", class, mp::opt_name(code)),
                                format!("option {} ({}): manual says {:?}, reply carries {:?}; request server-address {} chaddr {} client-options {:?} parameter-list {:?}", code, mp::opt_name(code), a.map(|x| hex(x)), b.map(|x| hex(x)), ipj(q.serverip), hex(&q.chaddr), q.opts.keys().collect::<Vec<_>>(), q.paramlist),
                                replay.clone(),
                            );
                            break;
                        }
                    }
                }
            }
        }
    }
}

pub fn run_c11(seed: u64, thorough: bool, shards: u64) -> Leg {
    let mut total = Leg::new(
        "c11-policy-model-inproc",
        "C11",
        "policy trees (depth <= 3, width <= 3) over match-subnet / match-hardware-address / match-<option>(value|null) and apply-<option>(value|null) for 17 option types, with top-level dns-servers ($self4/$self6/v4/v6), dns-search, captive-portal and addresses (with and without host bits); 12 requests per configuration (interface inside/outside each subnet, known/unknown chaddr, option values that do/do not satisfy match conditions, parameter lists empty/partial/full, interface MTU and router present/absent); reply options compared with the independent model of erbium.conf(5); distinct = (depth of the applied policy chain, options expected, parameter list size, host bits)",
    );
    total.floor = 500;
    let n: u64 = if thorough { 100_000 } else { 1_600 };
    let mut handles = Vec::new();
    for shard in 0..shards {
        let mut leg = total.child();
        handles.push(std::thread::spawn(move || {
            for i in 0..n / shards {
                let case_seed = seed.wrapping_mul(1_000_151).wrapping_add(shard * 5_000_011 + i);
                let mut r = Rng::new(case_seed);
                c11_case(&mut leg, &mut r, case_seed);
            }
            leg
        }));
    }
    for h in handles {
        match h.join() {
            Ok(l) => total.merge(l),
            Err(_) => total.inconclusive("shard thread died"),
        }
    }
    total
}

pub fn replay_c11(v: &Value) -> Leg {
    let mut leg = Leg::new("c11-replay", "C11", "replay of one recorded case");
    let cs = v["case_seed"].as_u64().unwrap_or(0);
    let mut r = Rng::new(cs);
    c11_case(&mut leg, &mut r, cs);
    leg
}
