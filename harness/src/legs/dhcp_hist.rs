//! DHCP history engine: generated hostile histories driven through the real dhcp::handle_pkt with
//! configurations loaded by the real YAML loader and a real SQLite lease store, observed by
//! reference monitors for C01, C09, C10, C13, C18 (in-process part) and C20 (gauge part).

use crate::guard;
use crate::refcodec::dhcp as rd;
use crate::report::{Leg, hex};
use crate::rng::Rng;
use erbium::dhcp;
use erbium::dhcp::dhcppkt;
use erbium::dhcp::pool;
use serde_json::{Value, json};
use std::collections::{BTreeMap, BTreeSet, HashSet};
use std::net::Ipv4Addr;

// ---------------------------------------------------------------------------------------------
// World description
// ---------------------------------------------------------------------------------------------

#[derive(Clone, Debug)]
pub struct Client {
    pub chaddr: Vec<u8>,
    pub client_id: Option<Vec<u8>>,
}

impl Client {
    pub fn identity(&self) -> Vec<u8> {
        self.client_id.clone().unwrap_or_else(|| self.chaddr.clone())
    }
}

/// One subnet's pool in one configuration: an inclusive range plus per-host reservations.
#[derive(Clone, Debug, Default)]
pub struct PoolDesc {
    pub range: Option<(u32, u32)>,
    /// (chaddr, address)
    pub reservations: Vec<(Vec<u8>, u32)>,
    /// the policy also pushes some 700 octets of options (long domain name, portal URL, 30 NTP servers)
    pub big: bool,
    /// the policy also says `apply-server-id: 198.51.100.7`
    pub sid_option: bool,
}

pub const BIG_OPTION_CODES: [u8; 3] = [15, 114, 42];

#[derive(Clone, Debug)]
pub struct ConfigDesc {
    /// indexed by subnet
    pub pools: Vec<PoolDesc>,
}

pub fn subnet_base(i: usize) -> u32 {
    u32::from(Ipv4Addr::new(10, 20 + i as u8, 0, 0))
}
pub fn server_ip(i: usize) -> Ipv4Addr {
    Ipv4Addr::from(subnet_base(i) + 1)
}

fn mac(v: &[u8]) -> String {
    v.iter()
        .map(|b| format!("{:02x}", b))
        .collect::<Vec<_>>()
        .join(":")
}

impl ConfigDesc {
    pub fn to_yaml(&self) -> String {
        let mut s = String::from("---\ndhcp-policies:\n");
        let mut any = false;
        for (i, p) in self.pools.iter().enumerate() {
            if p.range.is_none() && p.reservations.is_empty() {
                continue;
            }
            any = true;
            s += &format!("  - match-subnet: {}/24\n", Ipv4Addr::from(subnet_base(i)));
            if let Some((a, b)) = p.range {
                s += &format!(
                    "    apply-range: {{ start: {}, end: {} }}\n",
                    Ipv4Addr::from(a),
                    Ipv4Addr::from(b)
                );
            }
            if p.big {
                s += &format!("    apply-domain-name: '{}.example'\n", "d".repeat(230));
                s += &format!("    apply-captive-portal: 'https://portal.example/{}'\n", "p".repeat(220));
                s += &format!("    apply-ntp-servers: [{}]\n", (1..=30).map(|k| format!("10.9.9.{}", k)).collect::<Vec<_>>().join(", "));
            }
            if p.sid_option {
                // "server-id" is an ordinary entry of the option table, so a policy may set it; whatever it says, replies must
                // name THIS server
                s += "    apply-server-id: 198.51.100.7\n";
            }
            if !p.reservations.is_empty() {
                s += "    policies:\n";
                for (m, a) in &p.reservations {
                    s += &format!(
                        "      - {{ match-hardware-address: \"{}\", apply-address: {} }}\n",
                        mac(m),
                        Ipv4Addr::from(*a)
                    );
                }
            }
        }
        if !any {
            s = "---\ndhcp-policies: []\n".into();
        }
        s
    }

    /// The pool this configuration grants `client` on `subnet` (documented semantics: a matching
    /// reservation wins; otherwise the range minus every reserved address).  None = no pool.
    pub fn pool_for(&self, subnet: usize, client: &Client) -> Option<BTreeSet<u32>> {
        let p = self.pools.get(subnet)?;
        if p.range.is_none() && p.reservations.is_empty() {
            return None;
        }
        // Siblings are tried in order: the first reservation whose hardware address matches.
        if let Some((_, a)) = p.reservations.iter().find(|(m, _)| *m == client.chaddr) {
            return Some([*a].into_iter().collect());
        }
        let (a, b) = p.range?;
        let reserved: BTreeSet<u32> = p.reservations.iter().map(|(_, a)| *a).collect();
        Some((a..=b).filter(|x| !reserved.contains(x)).collect())
    }
}

#[derive(Clone, Debug)]
pub struct World {
    pub clients: Vec<Client>,
    pub configs: Vec<ConfigDesc>,
    pub nsubnets: usize,
    /// where a file-backed lease store comes from: 0 = created by the tree under test, 1 = an (empty) database in the
    /// original schema without a schema_version table, 2 = the original schema with schema_version pool = 0 -- what a
    /// site that has been running since an older release has
    pub store_origin: u8,
}

pub fn gen_world(r: &mut Rng) -> World {
    let nsubnets = r.range(1, 3) as usize;
    let nclients = r.range(3, 6) as usize;
    let mut clients: Vec<Client> = Vec::new();
    for i in 0..nclients {
        let chaddr = vec![0x02, 0, 0x5e, 0x10, r.below(3) as u8, i as u8];
        let client_id = if r.chance(1, 2) {
            let mut id = vec![1u8];
            id.extend_from_slice(&chaddr);
            if r.chance(1, 4) {
                let n = r.range(1, 12) as usize;
                id = r.bytes(n);
            }
            Some(id)
        } else {
            None
        };
        clients.push(Client { chaddr, client_id });
    }
    // Hostile identity overlaps.
    if nclients >= 4 {
        match r.below(9) {
            3 => {
                // RFC 4361 identifiers (255, IAID, DUID): same DUID, different IAID = two interfaces of one host, two clients
                let duid: Vec<u8> = [vec![0u8, *r.pick(&[1u8, 2, 3, 4])], r.bytes_in(6, 12)].concat();
                clients[0].client_id = Some([vec![0xffu8, 0, 0, 0, 1], duid.clone()].concat());
                clients[1].client_id = Some([vec![0xffu8, 0, 0, 0, 2], duid].concat());
            }
            4 => {
                // identifiers differing in one octet at a random position
                let mut a = r.bytes_in(2, 19);
                clients[0].client_id = Some(a.clone());
                let k = r.usize(a.len());
                a[k] ^= 1 << r.below(8);
                clients[1].client_id = Some(a);
            }
            5 => {
                // one identifier is a proper prefix of the other / the other with a trailing NUL
                let a = r.bytes_in(2, 10);
                clients[0].client_id = Some(a.clone());
                clients[1].client_id = Some([a, vec![if r.bool() { 0u8 } else { r.u8() }]].concat());
            }
            7 => {
                // a hardware address of 8 (or 16) octets whose first six are another client's MAC: another client
                let mut long = clients[0].chaddr.clone();
                long.extend_from_slice(if r.bool() { &[0x12, 0x34] } else { &[0, 0, 0, 0, 0, 0, 0, 0, 0, 1] });
                clients[1].chaddr = long;
                clients[0].client_id = None;
                clients[1].client_id = None;
            }
            6 => {
                // 01||MAC vs the bare MAC of ANOTHER client vs the same octets in upper/lower-case ASCII
                clients[0].client_id = Some(b"Client-A".to_vec());
                clients[1].client_id = Some(b"client-a".to_vec());
            }
            0 => {
                // same chaddr, different client ids: two distinct clients
                clients[1].chaddr = clients[0].chaddr.clone();
                clients[0].client_id = Some(vec![0xaa, 1]);
                clients[1].client_id = Some(vec![0xaa, 2]);
            }
            1 => {
                // same client id, different chaddr: ONE client by definition
                clients[1].client_id = Some(vec![0xbb, 7, 7]);
                clients[0].client_id = Some(vec![0xbb, 7, 7]);
            }
            2 => {
                // client 1's id equals client 0's bare hardware address: ONE client
                clients[0].client_id = None;
                clients[1].client_id = Some(clients[0].chaddr.clone());
            }
            _ => {}
        }
    }
    let nconfigs = r.range(1, 5) as usize;
    let mut configs = Vec::new();
    for _ in 0..nconfigs {
        let mut pools = Vec::new();
        for s in 0..nsubnets {
            let base = subnet_base(s);
            let mut p = PoolDesc::default();
            if !r.chance(1, 8) {
                let start = base + 10 + r.below(6) as u32;
                let len = r.range(1, 5) as u32;
                p.range = Some((start, start + len - 1));
            }
            if r.chance(1, 3) {
                let n = r.range(1, 2);
                for _ in 0..n {
                    let c = r.pick(&clients).chaddr.clone();
                    let addr = base + 10 + r.below(12) as u32;
                    if !p.reservations.iter().any(|(m, a)| *m == c || *a == addr) {
                        p.reservations.push((c, addr));
                    }
                }
            }
            p.big = r.chance(1, 4);
            p.sid_option = r.chance(1, 5);
            pools.push(p);
        }
        configs.push(ConfigDesc { pools });
    }
    let store_origin = match r.below(6) {
        4 => 1,
        5 => 2,
        _ => 0,
    };
    World {
        clients,
        configs,
        nsubnets,
        store_origin,
    }
}

// ---------------------------------------------------------------------------------------------
// Operations
// ---------------------------------------------------------------------------------------------

#[derive(Clone, Debug, PartialEq)]
pub enum Sid {
    None,
    Own,
    Foreign(u32),
    BadLen(Vec<u8>),
}

#[derive(Clone, Debug)]
pub struct MsgOp {
    pub client: usize,
    pub subnet: usize,
    /// None = no message-type option at all
    pub mtype: Option<u8>,
    pub opt50: Option<u32>,
    pub ciaddr: Option<u32>,
    pub sid: Sid,
    pub flags: u16,
    pub giaddr: u32,
    pub xid: u32,
    pub extra: Vec<(u8, Vec<u8>)>,
}

#[derive(Clone, Debug)]
pub enum Op {
    Msg(MsgOp),
    Advance(i64),
    Restart,
    Switch(usize),
    /// Another process (a backup, an administrator's sqlite3 shell) takes (true) / gives back (false) the write lock of the
    /// lease database file.  While it is held the server cannot record a lease -- and so must not hand one out.
    ForeignLock(bool),
}

fn ipj(x: u32) -> String {
    Ipv4Addr::from(x).to_string()
}

impl Op {
    pub fn to_json(&self) -> Value {
        match self {
            Op::Advance(d) => json!({"op": "advance", "secs": d}),
            Op::Restart => json!({"op": "restart"}),
            Op::ForeignLock(on) => json!({"op": "foreign-lock", "on": on}),
            Op::Switch(k) => json!({"op": "switch-config", "config": k}),
            Op::Msg(m) => json!({
                "op": "msg", "client": m.client, "subnet": m.subnet, "type": m.mtype,
                "opt50": m.opt50.map(ipj), "ciaddr": m.ciaddr.map(ipj),
                "sid": match &m.sid { Sid::None => json!(null), Sid::Own => json!("own"),
                    Sid::Foreign(x) => json!(ipj(*x)), Sid::BadLen(v) => json!({"badlen": hex(v)}) },
                "flags": m.flags, "giaddr": ipj(m.giaddr), "xid": m.xid,
                "extra": m.extra.iter().map(|(c, v)| json!([c, hex(v)])).collect::<Vec<_>>(),
            }),
        }
    }
    pub fn from_json(v: &Value) -> Option<Op> {
        let ip = |x: &Value| -> Option<u32> {
            x.as_str()
                .and_then(|s| s.parse::<Ipv4Addr>().ok())
                .map(u32::from)
        };
        match v["op"].as_str()? {
            "advance" => Some(Op::Advance(v["secs"].as_i64()?)),
            "restart" => Some(Op::Restart),
            "foreign-lock" => Some(Op::ForeignLock(v["on"].as_bool()?)),
            "switch-config" => Some(Op::Switch(v["config"].as_u64()? as usize)),
            "msg" => Some(Op::Msg(MsgOp {
                client: v["client"].as_u64()? as usize,
                subnet: v["subnet"].as_u64()? as usize,
                mtype: v["type"].as_u64().map(|x| x as u8),
                opt50: ip(&v["opt50"]),
                ciaddr: ip(&v["ciaddr"]),
                sid: match &v["sid"] {
                    Value::Null => Sid::None,
                    Value::String(s) if s == "own" => Sid::Own,
                    Value::String(s) => Sid::Foreign(u32::from(s.parse::<Ipv4Addr>().ok()?)),
                    o => Sid::BadLen(crate::report::unhex(o["badlen"].as_str()?)),
                },
                flags: v["flags"].as_u64()? as u16,
                giaddr: ip(&v["giaddr"]).unwrap_or(0),
                xid: v["xid"].as_u64()? as u32,
                extra: v["extra"]
                    .as_array()
                    .map(|a| {
                        a.iter()
                            .filter_map(|e| {
                                Some((
                                    e[0].as_u64()? as u8,
                                    crate::report::unhex(e[1].as_str()?),
                                ))
                            })
                            .collect()
                    })
                    .unwrap_or_default(),
            })),
            _ => None,
        }
    }
}

pub fn world_to_json(w: &World) -> Value {
    json!({
        "nsubnets": w.nsubnets,
        "store_origin": w.store_origin,
        "clients": w.clients.iter().map(|c| json!({"chaddr": hex(&c.chaddr),
            "client_id": c.client_id.as_ref().map(|x| hex(x))})).collect::<Vec<_>>(),
        "configs": w.configs.iter().map(|c| json!(c.pools.iter().map(|p| json!({
            "range": p.range.map(|(a, b)| json!([ipj(a), ipj(b)])),
            "reservations": p.reservations.iter().map(|(m, a)| json!([hex(m), ipj(*a)])).collect::<Vec<_>>(),
            "big": p.big,
            "sid_option": p.sid_option,
        })).collect::<Vec<_>>())).collect::<Vec<_>>(),
    })
}

pub fn world_from_json(v: &Value) -> Option<World> {
    let ip = |x: &Value| -> Option<u32> {
        x.as_str()
            .and_then(|s| s.parse::<Ipv4Addr>().ok())
            .map(u32::from)
    };
    let clients = v["clients"]
        .as_array()?
        .iter()
        .map(|c| Client {
            chaddr: crate::report::unhex(c["chaddr"].as_str().unwrap_or("")),
            client_id: c["client_id"].as_str().map(crate::report::unhex),
        })
        .collect();
    let mut configs = Vec::new();
    for c in v["configs"].as_array()? {
        let mut pools = Vec::new();
        for p in c.as_array()? {
            let range = match &p["range"] {
                Value::Array(a) if a.len() == 2 => Some((ip(&a[0])?, ip(&a[1])?)),
                _ => None,
            };
            let reservations = p["reservations"]
                .as_array()
                .map(|a| {
                    a.iter()
                        .filter_map(|e| {
                            Some((crate::report::unhex(e[0].as_str()?), ip(&e[1])?))
                        })
                        .collect()
                })
                .unwrap_or_default();
            pools.push(PoolDesc {
                range,
                reservations,
                big: p["big"].as_bool().unwrap_or(false),
                sid_option: p["sid_option"].as_bool().unwrap_or(false),
            });
        }
        configs.push(ConfigDesc { pools });
    }
    Some(World {
        clients,
        configs,
        nsubnets: v["nsubnets"].as_u64()? as usize,
        store_origin: v["store_origin"].as_u64().unwrap_or(0) as u8,
    })
}

// ---------------------------------------------------------------------------------------------
// Driving the real code
// ---------------------------------------------------------------------------------------------

#[derive(Clone, Debug, PartialEq, Eq)]
pub struct Row {
    pub client: Vec<u8>,
    pub start: i64,
    pub expire: i64,
    pub options: Vec<u8>,
}

pub type Snapshot = BTreeMap<u32, Row>;

pub fn snapshot(p: &mut pool::Pool) -> Result<Snapshot, String> {
    let rows = p.get_leases().map_err(|e| e.to_string())?;
    let mut m = BTreeMap::new();
    for r in rows {
        m.insert(
            u32::from(r.ip),
            Row {
                client: r.client_id,
                start: r.start as i64,
                expire: r.expire as i64,
                options: r.options,
            },
        );
    }
    Ok(m)
}

pub fn now_s() -> i64 {
    std::time::SystemTime::now()
        .duration_since(std::time::UNIX_EPOCH)
        .unwrap()
        .as_secs() as i64
}

pub fn build_request_bytes(w: &World, m: &MsgOp) -> Vec<u8> {
    let c = &w.clients[m.client];
    let mut msg = rd::Msg {
        op: 1,
        htype: 1,
        hlen: c.chaddr.len() as u8,
        chaddr: c.chaddr.clone(),
        xid: m.xid,
        flags: m.flags,
        giaddr: Ipv4Addr::from(m.giaddr),
        ciaddr: Ipv4Addr::from(m.ciaddr.unwrap_or(0)),
        ..Default::default()
    };
    if let Some(t) = m.mtype {
        msg.options.push((53, vec![t]));
    }
    if let Some(id) = &c.client_id {
        msg.options.push((61, id.clone()));
    }
    if let Some(a) = m.opt50 {
        msg.options.push((50, a.to_be_bytes().to_vec()));
    }
    match &m.sid {
        Sid::None => {}
        Sid::Own => msg
            .options
            .push((54, server_ip(m.subnet).octets().to_vec())),
        Sid::Foreign(x) => msg.options.push((54, x.to_be_bytes().to_vec())),
        Sid::BadLen(v) => msg.options.push((54, v.clone())),
    }
    if !m.extra.iter().any(|(c, _)| *c == 55) {
        msg.options.push((55, vec![1, 3, 6, 28, 51, 54]));
    }
    for (c, v) in &m.extra {
        if !msg.options.iter().any(|(k, _)| k == c) {
            msg.options.push((*c, v.clone()));
        }
    }
    rd::encode(&msg)
}

#[derive(Clone, Debug)]
pub struct Reply {
    pub yiaddr: u32,
    pub mtype: Option<u8>,
    pub lease: Option<Vec<u8>>,
    pub serverid: Option<Vec<u8>>,
    pub xid: u32,
    pub flags: u16,
    pub giaddr: u32,
    pub chaddr: Vec<u8>,
    pub op_byte: u8,
}

#[derive(Clone, Debug)]
pub enum Outcome {
    Reply(Reply),
    /// error kind
    Refused(String),
}

fn err_kind(e: &dhcp::DhcpError) -> String {
    use dhcp::DhcpError::*;
    match e {
        UnknownMessageType(_) => "UnknownMessageType".into(),
        NoLeasesConfigured => "NoLeasesConfigured".into(),
        ParseError(_) => "ParseError".into(),
        PoolError(pool::Error::NoAssignableAddress) => "NoAssignableAddress".into(),
        PoolError(pool::Error::RequestedAddressInUse) => "RequestedAddressInUse".into(),
        PoolError(pool::Error::DbError(s)) => format!("DbError({})", s),
        PoolError(pool::Error::CorruptDatabase(s)) => format!("CorruptDatabase({})", s),
        InternalError(s) => format!("InternalError({})", s),
        OtherServer(_) => "OtherServer".into(),
        NoPolicyConfigured => "NoPolicyConfigured".into(),
        // a tree under test may know further errors; the harness must still build against it
        #[allow(unreachable_patterns)]
        other => format!("Other({})", other),
    }
}

pub struct Server {
    pub pool: pool::Pool,
    pub path: Option<std::path::PathBuf>,
    pub confs: Vec<erbium::config::SharedConfig>,
    pub cur: usize,
    pub ids: HashSet<Ipv4Addr>,
    /// C13 only: a DHCPNAK counts as a reply
    pub nak_is_reply: bool,
}

impl Server {
    pub fn new(w: &World, path: Option<std::path::PathBuf>) -> Result<Server, String> {
        let mut confs = Vec::new();
        for c in &w.configs {
            let y = c.to_yaml();
            let conf = guard::guard(|| erbium::config::verif_load_config_from_string(&y))
                .map_err(|p| format!("loader panicked on engine config: {:?}", p))?
                .map_err(|e| format!("engine config rejected: {} -- {}", e, y))?;
            confs.push(conf);
        }
        let pool = match &path {
            Some(p) => {
                let _ = std::fs::remove_file(p);
                if w.store_origin != 0 {
                    // the schema of the first releases, written in plain SQL; the tree under test upgrades it when it opens it
                    let conn = rusqlite::Connection::open(p).map_err(|e| e.to_string())?;
                    conn.execute("CREATE TABLE leases (address TEXT NOT NULL, chaddr BLOB, clientid BLOB, start INTEGER NOT NULL, expiry INTEGER NOT NULL, PRIMARY KEY (address))", [])
                        .map_err(|e| e.to_string())?;
                    if w.store_origin == 2 {
                        conn.execute("CREATE TABLE schema_version (key TEXT NOT NULL, version INTEGER NOT NULL, PRIMARY KEY (key))", []).map_err(|e| e.to_string())?;
                        conn.execute("INSERT INTO schema_version (key, version) VALUES ('pool', 0)", []).map_err(|e| e.to_string())?;
                    }
                    conn.close().map_err(|e| e.1.to_string())?;
                }
                pool::Pool::verif_open(p)
            }
            None => pool::Pool::new_in_memory(),
        }
        .map_err(|e| e.to_string())?;
        Ok(Server {
            pool,
            path,
            confs,
            cur: 0,
            ids: HashSet::new(),
            nak_is_reply: false,
        })
    }

    pub fn restart(&mut self) -> Result<(), String> {
        if let Some(p) = &self.path {
            // Close first (drop), then reopen: what a process restart does to the store.
            let newp = {
                let old = std::mem::replace(
                    &mut self.pool,
                    pool::Pool::new_in_memory().map_err(|e| e.to_string())?,
                );
                drop(old);
                pool::Pool::verif_open(p).map_err(|e| e.to_string())?
            };
            self.pool = newp;
        }
        // A restarted server has forgotten which addresses it identified itself with.
        self.ids.clear();
        Ok(())
    }

    /// Returns (outcome, panicked?)
    pub fn handle(&mut self, w: &World, m: &MsgOp) -> Result<Outcome, guard::Panicked> {
        let bytes = build_request_bytes(w, m);
        let conf = self.confs[self.cur].clone();
        let ids = self.ids.clone();
        let sip = server_ip(m.subnet);
        let nak_is_reply = self.nak_is_reply;
        let pool = &mut self.pool;
        let b2 = bytes.clone();
        let r = guard::timed(&bytes, move || {
            let pkt = match dhcppkt::parse(&b2) {
                Ok(p) => p,
                Err(e) => return Err(format!("decode:{:?}", e)),
            };
            let req = dhcp::DHCPRequest {
                pkt,
                serverip: sip,
                ifindex: 2 + m.subnet as u32,
                if_mtu: Some(1500),
                if_router: Some(sip),
            };
            let c = conf.try_read().expect("config lock");
            match dhcp::handle_pkt(pool, &req, ids, &c) {
                Ok(rep) if !nak_is_reply && rep.options.get_raw_option(&dhcppkt::DhcpOption::new(53)).and_then(|v| v.first().copied()) == Some(6) => {
                    // a DHCPNAK assigns nothing and promises nothing: for every property but C13 (which speaks about which
                    // messages get ANY reply) it is a refusal
                    Ok(Outcome::Refused("Nak".into()))
                }
                Ok(rep) => {
                    let wire = rep.serialise();
                    Ok(Outcome::Reply(Reply {
                        yiaddr: u32::from(rep.yiaddr),
                        mtype: rep
                            .options
                            .get_raw_option(&dhcppkt::DhcpOption::new(53))
                            .and_then(|v| v.first().copied()),
                        lease: rep
                            .options
                            .get_raw_option(&dhcppkt::DhcpOption::new(51))
                            .map(|v| v.to_vec()),
                        serverid: rep
                            .options
                            .get_raw_option(&dhcppkt::DhcpOption::new(54))
                            .map(|v| v.to_vec()),
                        xid: rep.xid,
                        flags: rep.flags,
                        giaddr: u32::from(rep.giaddr),
                        chaddr: rep.chaddr.clone(),
                        op_byte: wire.first().copied().unwrap_or(0),
                    }))
                }
                Err(e) => Ok(Outcome::Refused(err_kind(&e))),
            }
        })?;
        match r {
            Ok(o) => {
                if let Outcome::Reply(rep) = &o {
                    // The real service remembers every address it named itself with.
                    if let Some(s) = &rep.serverid {
                        if s.len() == 4 {
                            self.ids.insert(Ipv4Addr::new(s[0], s[1], s[2], s[3]));
                        }
                    }
                }
                Ok(o)
            }
            Err(s) => Ok(Outcome::Refused(s)),
        }
    }
}

// ---------------------------------------------------------------------------------------------
// Monitors
// ---------------------------------------------------------------------------------------------

#[derive(Clone, Copy, PartialEq, Eq, Debug)]
pub enum Prop {
    C01,
    C02,
    C09,
    C10,
    C13,
    C18,
    C20,
}

#[derive(Clone, Debug)]
struct Held {
    client: Vec<u8>,
    expire: i64,
}

const BOUNDARY: i64 = 2;

pub struct HistoryRun<'a> {
    pub w: &'a World,
    pub prop: Prop,
    pub srv: Server,
    /// C18 only: a twin that is never restarted.
    pub twin: Option<Server>,
    held: BTreeMap<u32, Held>,
    /// C10: address -> (client, instant until which the newest reply for that address promised it), from the ADVERTISED lease time
    promises: BTreeMap<u32, (Vec<u8>, i64)>,
    pub trace: Vec<Op>,
    pub leg: &'a mut Leg,
    pub coords: Value,
    /// per-client last address a reply carried
    last_addr: BTreeMap<usize, u32>,
    abandoned_twin: bool,
    pub violated: bool,
    /// connections of the "other process" holding the write lock of the store (and of the twin's)
    foreign: Vec<rusqlite::Connection>,
}

impl<'a> HistoryRun<'a> {
    pub fn new(
        w: &'a World,
        prop: Prop,
        leg: &'a mut Leg,
        scratch: &std::path::Path,
        tag: &str,
        coords: Value,
    ) -> Result<Self, String> {
        // C01 quantifies over restarts too: file-backed store, restarts at a lower rate than C18's; C10's record must be
        // on disk before the reply as well (another process can hold the file's lock: Op::ForeignLock)
        let file_backed = prop == Prop::C18 || prop == Prop::C01 || prop == Prop::C10;
        let path = if file_backed {
            Some(scratch.join(format!("{}-a.sqlite", tag)))
        } else {
            None
        };
        let mut srv = Server::new(w, path)?;
        srv.nak_is_reply = prop == Prop::C13;
        let twin = if prop == Prop::C18 {
            Some(Server::new(
                w,
                Some(scratch.join(format!("{}-b.sqlite", tag))),
            )?)
        } else {
            None
        };
        Ok(HistoryRun {
            w,
            prop,
            srv,
            twin,
            held: BTreeMap::new(),
            promises: BTreeMap::new(),
            trace: Vec::new(),
            leg,
            coords,
            last_addr: BTreeMap::new(),
            abandoned_twin: false,
            violated: false,
            foreign: Vec::new(),
        })
    }

    fn replay_json(&self) -> Value {
        json!({
            "engine": "dhcp-hist",
            "property": format!("{:?}", self.prop),
            "coords": self.coords,
            "world": world_to_json(self.w),
            "ops": self.trace.iter().map(|o| o.to_json()).collect::<Vec<_>>(),
        })
    }

    fn violate(&mut self, sig: &str, detail: String) {
        self.violated = true;
        let rj = self.replay_json();
        self.leg
            .violation(format!("{:?}/{}", self.prop, sig), detail, rj);
    }

    pub fn cleanup(&mut self) {
        self.foreign.clear();
        for s in [Some(&self.srv), self.twin.as_ref()].into_iter().flatten() {
            if let Some(p) = &s.path {
                let _ = std::fs::remove_file(p);
                let _ = std::fs::remove_file(p.with_extension("sqlite-journal"));
            }
        }
    }

    /// Generate the next operation from the observed state.
    pub fn gen_op(&mut self, r: &mut Rng) -> Op {
        let w = self.w;
        let roll = r.below(100);
        let restart_weight = match self.prop {
            Prop::C18 => 12,
            Prop::C01 => 5,
            _ => 0,
        };
        if roll < 12 {
            // time passes: values straddling the lease lengths in play (outside the ±2 s window)
            let mut cands: Vec<i64> = vec![1, 5, 60, 149, 151, 297, 303, 450, 897, 903, 2700, 8100];
            let now = now_s();
            for h in self.held.values() {
                let rem = h.expire - now;
                if rem > 8 {
                    cands.push(rem - 4);
                    cands.push(rem + 4);
                    cands.push(rem / 2);
                }
            }
            cands.extend_from_slice(&[86_399, 86_405, 200_000]);
            return Op::Advance(*r.pick(&cands));
        }
        if roll < 12 + restart_weight {
            return Op::Restart;
        }
        if roll < 12 + restart_weight + 6 && w.configs.len() > 1 {
            return Op::Switch(r.usize(w.configs.len()));
        }
        let client = r.usize(w.clients.len());
        let subnet = r.usize(w.nsubnets);
        let conf = &w.configs[self.srv.cur];
        let pool: Vec<u32> = conf
            .pool_for(subnet, &w.clients[client])
            .map(|s| s.into_iter().collect())
            .unwrap_or_default();
        // candidate addresses to name
        let mut named: Vec<Option<u32>> = vec![None, None];
        if let Some(a) = self.last_addr.get(&client) {
            named.push(Some(*a));
            named.push(Some(*a));
            named.push(Some(*a));
        }
        let ident = w.clients[client].identity();
        // a client holding several leases names the one that is NOT the longest-lived more often
        let mut mine: Vec<(i64, u32)> = self.held.iter().filter(|(_, h)| h.client == ident).map(|(a, h)| (h.expire, *a)).collect();
        mine.sort();
        if mine.len() >= 2 {
            for _ in 0..4 {
                named.push(Some(mine[0].1));
            }
        }
        for (a, h) in &self.held {
            if h.client == ident {
                named.push(Some(*a));
            } else if r.chance(1, 3) {
                named.push(Some(*a)); // somebody else's address
            }
        }
        if !pool.is_empty() {
            named.push(Some(*r.pick(&pool)));
        }
        named.push(Some(subnet_base(subnet) + 200 + r.below(5) as u32)); // outside every pool
        named.push(Some(u32::from(server_ip(subnet))));
        let pick = *r.pick(&named);

        let kind_roll = r.below(100);
        let c13 = self.prop == Prop::C13;
        let c18 = self.prop == Prop::C18;
        let (mtype, opt50, ciaddr, sid) = if c18 && kind_roll >= 90 {
            // RELEASE / DECLINE of the address the client was given last (whatever a server does with these, a restarted
            // server must go on exactly like one that was not restarted)
            let mine = self.last_addr.get(&client).copied().or(pick);
            (Some(*r.pick(&[4u8, 7])), mine, if r.bool() { mine } else { None }, if r.bool() { Sid::Own } else { Sid::None })
        } else if kind_roll < 40 {
            (Some(1u8), pick, None, Sid::None)
        } else if kind_roll < (if c13 { 70 } else { 92 }) {
            // REQUEST: selecting (opt50 + sid own), renewing (ciaddr), init-reboot (opt50, no sid)
            let sid = match r.below(if c13 { 10 } else { 20 }) {
                0 => Sid::Foreign(u32::from(Ipv4Addr::new(192, 0, 2, 99))),
                1 => Sid::Foreign(u32::from(server_ip((subnet + 1) % 3))),
                2 if c13 => {
                    let n = *r.pick(&[0usize, 1, 3, 5, 8]);
                    Sid::BadLen(r.bytes(n))
                }
                3..=8 => Sid::Own,
                _ => Sid::None,
            };
            match r.below(4) {
                0 => (Some(3u8), None, pick, sid),
                1 => (Some(3u8), pick, *r.pick(&named), sid),
                _ => (Some(3u8), pick, None, sid),
            }
        } else {
            // Everything that must be ignored: RELEASE, DECLINE, INFORM, replies, unknown, absent.
            let t = match r.below(10) {
                0 => None,
                1 => Some(7u8),
                2 => Some(4),
                3 => Some(8),
                4 => Some(2),
                5 => Some(5),
                6 => Some(6),
                7 => Some(0),
                8 => Some(r.range(9, 255) as u8),
                _ => Some(r.u8()),
            };
            let t = match t {
                Some(1) | Some(3) => Some(7),
                o => o,
            };
            let sid = match r.below(3) {
                0 => Sid::Own,
                1 => Sid::None,
                _ => Sid::Foreign(u32::from(Ipv4Addr::new(192, 0, 2, 99))),
            };
            (t, pick, if r.bool() { pick } else { None }, sid)
        };
        let flags = *r.pick(&[0u16, 0x8000, 0x0080, 0xffff, 0x7fff]);
        let giaddr = if r.chance(1, 6) {
            subnet_base(subnet) + 254
        } else {
            0
        };
        let mut extra = Vec::new();
        if r.chance(1, 3) {
            extra.push((12u8, b"host".to_vec()));
        }
        if self.prop == Prop::C10 && r.chance(1, 3) {
            // the client asks for a lease time of its own (option 51 in the request)
            let v = *r.pick(&[0u32, 1, 60, 299, 300, 301, 3600, 86_400, 86_401, u32::MAX]);
            extra.push((51u8, v.to_be_bytes().to_vec()));
        }
        if r.chance(1, 3) {
            // another parameter request list: asks for the large options some policies push, mostly WITHOUT listing 51/54
            let mut prl: Vec<u8> = vec![1, 3, 6, 28];
            prl.extend_from_slice(&BIG_OPTION_CODES);
            if r.chance(1, 4) {
                prl.push(51);
            }
            if r.chance(1, 4) {
                prl.push(54);
            }
            r.shuffle(&mut prl);
            extra.push((55u8, prl));
        }
        if r.chance(1, 5) {
            // options that describe the machine rather than the client: the SAME value from every client (cloned images, a
            // vendor's placeholder UUID, one relay port): none of them is the client identifier
            match r.below(4) {
                0 => extra.push((97u8, [vec![0u8], vec![0x11; 16]].concat())),
                1 => extra.push((82u8, vec![1, 4, 0, 0, 0, 7, 2, 4, 0xaa, 0xbb, 0xcc, 0xdd])),
                2 => extra.push((60u8, b"MSFT 5.0".to_vec())),
                _ => extra.push((93u8, vec![0, 7])),
            }
        }
        if giaddr != 0 && r.chance(1, 2) {
            // relay agent information with a "server identifier override" sub-option (RFC 5107) naming whatever server this
            // message names: a relay's say-so does not make a foreign server ours
            let named: Option<Vec<u8>> = match &sid {
                Sid::Foreign(x) => Some(x.to_be_bytes().to_vec()),
                Sid::Own => Some(server_ip(subnet).octets().to_vec()),
                _ => None,
            };
            if let Some(n) = named {
                let mut v = vec![1u8, 2, 0, 7, 11, 4];
                v.extend_from_slice(&n);
                extra.retain(|(c, _)| *c != 82);
                extra.push((82u8, v));
            }
        }
        if r.chance(1, 4) {
            // maximum DHCP message size
            let v = *r.pick(&[0u16, 300, 548, 576, 590, 1024, 1500, 65_535]);
            extra.push((57u8, v.to_be_bytes().to_vec()));
        }
        if c13 && r.chance(1, 4) {
            let code = *r.pick(&[51u8, 58, 59, 60, 77, 82, 116, 224]);
            let n = r.range(0, 9) as usize;
            extra.push((code, r.bytes(n)));
        }
        Op::Msg(MsgOp {
            client,
            subnet,
            mtype,
            opt50,
            ciaddr,
            sid,
            flags,
            giaddr,
            xid: r.u32(),
            extra,
        })
    }

    /// Apply one operation, with the monitors watching.  Err = harness trouble (inconclusive).
    pub fn step(&mut self, op: Op) -> Result<(), String> {
        self.trace.push(op.clone());
        match op {
            Op::Advance(d) => {
                self.srv
                    .pool
                    .verif_shift_clock(d)
                    .map_err(|e| e.to_string())?;
                if let Some(t) = &mut self.twin {
                    t.pool.verif_shift_clock(d).map_err(|e| e.to_string())?;
                }
                for h in self.held.values_mut() {
                    h.expire -= d;
                }
                for p in self.promises.values_mut() {
                    p.1 -= d;
                }
                self.leg.count("op_advance", 1);
                Ok(())
            }
            Op::Switch(k) => {
                self.srv.cur = k % self.srv.confs.len();
                if let Some(t) = &mut self.twin {
                    t.cur = self.srv.cur;
                }
                self.leg.count("op_switch_config", 1);
                Ok(())
            }
            Op::Restart => {
                let before = snapshot(&mut self.srv.pool)?;
                self.srv.restart()?;
                let after = snapshot(&mut self.srv.pool)?;
                self.leg.count("op_restart", 1);
                self.leg.eval();
                if before != after {
                    self.violate(
                        "rows-changed-by-reopen",
                        format!("before={:?} after={:?}", before, after),
                    );
                }
                // the twin keeps its ids; the restarted server lost them.  Give both the same
                // knowledge so that only the store differs.
                if let Some(t) = &mut self.twin {
                    t.ids.clear();
                }
                Ok(())
            }
            Op::ForeignLock(true) => {
                if self.foreign.is_empty() {
                    for s in [Some(&self.srv), self.twin.as_ref()].into_iter().flatten() {
                        if let Some(p) = &s.path {
                            let c = rusqlite::Connection::open(p).map_err(|e| e.to_string())?;
                            c.execute_batch("BEGIN IMMEDIATE").map_err(|e| format!("foreign BEGIN IMMEDIATE: {}", e))?;
                            self.foreign.push(c);
                        }
                    }
                    self.leg.count("op_foreign_lock_taken", 1);
                }
                Ok(())
            }
            Op::ForeignLock(false) => {
                for c in self.foreign.drain(..) {
                    let _ = c.execute_batch("ROLLBACK");
                }
                Ok(())
            }
            Op::Msg(m) => {
                if !self.foreign.is_empty() {
                    self.leg.count("messages_while_another_process_held_the_database", 1);
                }
                self.step_msg(&m)
            }
        }
    }

    fn step_msg(&mut self, m: &MsgOp) -> Result<(), String> {
        let w = self.w;
        if m.client >= w.clients.len() || m.subnet >= w.nsubnets {
            return Err("replay op out of range".into());
        }
        let client = &w.clients[m.client];
        let ident = client.identity();
        let conf = &w.configs[self.srv.cur];
        let pool = conf.pool_for(m.subnet, client);
        let before = snapshot(&mut self.srv.pool)?;
        let ids_before: HashSet<Ipv4Addr> = self.srv.ids.clone();
        let t_before = now_s();
        let out = self.srv.handle(w, m);
        let t_after = now_s();
        let after = snapshot(&mut self.srv.pool)?;
        self.leg.eval();

        let out = match out {
            Ok(o) => o,
            Err(p) => {
                // A panic in the handler: C05's subject, but it also ends this history.
                self.leg.count("handler_panics", 1);
                self.violate(
                    &format!("handler-panic/{}", p.site()),
                    format!("{} at {}", p.message, p.location),
                );
                return Err("handler panicked".into());
            }
        };

        let answered_kind = matches!(m.mtype, Some(1) | Some(3));
        // A REQUEST naming a server (4-octet option 54) is for us only if we identified ourselves
        // with that address before.
        let sid_foreign = match &m.sid {
            Sid::Foreign(x) => !ids_before.contains(&Ipv4Addr::from(*x)),
            Sid::Own => !ids_before.contains(&server_ip(m.subnet)),
            _ => false,
        };
        let must_ignore = !answered_kind || (m.mtype == Some(3) && sid_foreign);
        let kind = match m.mtype {
            Some(1) => "DISCOVER",
            Some(3) => "REQUEST",
            None => "NOTYPE",
            _ => "OTHER",
        };

        // ---- class accounting (distinct non-trivial cases) ----
        {
            let named = match (m.ciaddr, m.opt50) {
                (Some(_), Some(_)) => "both",
                (Some(_), None) => "ciaddr",
                (None, Some(_)) => "opt50",
                _ => "none",
            };
            let holds_any = self
                .held
                .values()
                .any(|h| h.client == ident && h.expire > t_after);
            let contention = match &pool {
                None => "nopool".to_string(),
                Some(p) => {
                    let others = p
                        .iter()
                        .filter(|x| {
                            self.held
                                .get(x)
                                .map(|h| h.client != ident && h.expire > t_after)
                                .unwrap_or(false)
                        })
                        .count();
                    if others == p.len() {
                        "full".into()
                    } else if others == 0 {
                        "free".into()
                    } else {
                        "partial".into()
                    }
                }
            };
            let o = match &out {
                Outcome::Reply(_) => "reply".to_string(),
                Outcome::Refused(k) => k.split('(').next().unwrap_or("").to_string(),
            };
            self.leg.class(format!(
                "{}|{}|sid={}|holds={}|{}|{}",
                kind,
                named,
                match &m.sid {
                    Sid::None => "none",
                    Sid::Own => "own",
                    Sid::Foreign(_) => "foreign",
                    Sid::BadLen(_) => "badlen",
                },
                holds_any,
                contention,
                o
            ));
        }

        // ---- C13: who is answered, what may change ----
        if self.prop == Prop::C13 {
            match &out {
                Outcome::Reply(rep) => {
                    if must_ignore {
                        self.violate(
                            &format!("answered-message-not-for-us/{}", kind),
                            format!("type={:?} sid={:?} ids={:?} got reply yiaddr={}", m.mtype, m.sid, ids_before, ipj(rep.yiaddr)),
                        );
                    }
                    let changed: Vec<u32> = before
                        .keys()
                        .chain(after.keys())
                        .copied()
                        .collect::<BTreeSet<_>>()
                        .into_iter()
                        .filter(|k| before.get(k) != after.get(k))
                        .collect();
                    if changed.iter().any(|k| *k != rep.yiaddr) {
                        self.violate(
                            "reply-touched-other-rows",
                            format!("yiaddr={} changed rows={:?}", ipj(rep.yiaddr), changed.iter().map(|x| ipj(*x)).collect::<Vec<_>>()),
                        );
                    }
                    if rep.xid != m.xid {
                        self.violate("echo/xid", format!("sent {:#x} got {:#x}", m.xid, rep.xid));
                    }
                    if rep.chaddr != client.chaddr {
                        self.violate("echo/chaddr", format!("sent {} got {}", hex(&client.chaddr), hex(&rep.chaddr)));
                    }
                    if rep.giaddr != m.giaddr {
                        self.violate("echo/giaddr", format!("sent {} got {}", ipj(m.giaddr), ipj(rep.giaddr)));
                    }
                    if rep.flags != m.flags {
                        self.violate("echo/flags", format!("sent {:#x} got {:#x}", m.flags, rep.flags));
                    }
                    if rep.op_byte != 2 {
                        self.violate("reply-op-not-bootreply", format!("op={}", rep.op_byte));
                    }
                    let sip = server_ip(m.subnet);
                    match &rep.serverid {
                        Some(s) if s.len() == 4 => {
                            let a = Ipv4Addr::new(s[0], s[1], s[2], s[3]);
                            if a != sip && !ids_before.contains(&a) {
                                self.violate("server-id-names-someone-else", format!("server id {} but this server is {} / {:?}", a, sip, ids_before));
                            }
                        }
                        o => self.violate("server-id-missing", format!("option 54 = {:?}", o)),
                    }
                    let want = if m.mtype == Some(1) { 2 } else { 5 };
                    if rep.mtype != Some(want) {
                        self.violate("wrong-reply-type", format!("{} answered with type {:?}", kind, rep.mtype));
                    }
                }
                Outcome::Refused(k) => {
                    if before != after {
                        let changed: Vec<String> = before
                            .keys()
                            .chain(after.keys())
                            .copied()
                            .collect::<BTreeSet<_>>()
                            .into_iter()
                            .filter(|k| before.get(k) != after.get(k))
                            .map(ipj)
                            .collect();
                        self.violate(
                            &format!("unanswered-message-changed-store/{}", kind),
                            format!("outcome {} but rows changed: {:?}", k, changed),
                        );
                    }
                    if pool.is_none() && !must_ignore {
                        self.leg.count("no_pool_requests_refused", 1);
                    }
                }
            }
            if pool.is_none() && !must_ignore {
                if let Outcome::Reply(rep) = &out {
                    self.violate("answered-without-configured-pool", format!("yiaddr={}", ipj(rep.yiaddr)));
                }
            }
            if must_ignore {
                self.leg.count("must_ignore_messages", 1);
            }
        }

        // ---- C01 ----
        if self.prop == Prop::C01 {
            if let Outcome::Reply(rep) = &out {
                if let Some(h) = self.held.get(&rep.yiaddr).cloned() {
                    if h.client != ident {
                        if h.expire > t_after {
                            let d = format!(
                                "{} given to client {} at t={} while client {} holds it until {} (recorded)",
                                ipj(rep.yiaddr), hex(&ident), t_after, hex(&h.client), h.expire
                            );
                            self.violate(&format!("double-lease/{}", kind), d);
                        } else if h.expire > t_before - BOUNDARY {
                            self.leg.count("skipped_at_boundary", 1);
                        } else {
                            self.leg.count("reassigned_after_expiry", 1);
                        }
                    }
                }
                if let Some(p) = &pool {
                    if !p.contains(&rep.yiaddr) {
                        // not C01's statement, but a lease outside the pool cannot be tracked
                        self.leg.count("yiaddr_outside_pool", 1);
                    }
                }
            }
        }

        // ---- C02 (over histories) ----
        if self.prop == Prop::C02 {
            if let Outcome::Reply(rep) = &out {
                match &pool {
                    Some(p) if p.contains(&rep.yiaddr) => self.leg.count("addresses_inside_the_clients_set", 1),
                    Some(p) => {
                        let d = format!("{} {} to client {} on the interface {}: the configuration in force grants it {:?}", kind, ipj(rep.yiaddr), hex(&ident), server_ip(m.subnet), p.iter().map(|x| ipj(*x)).collect::<Vec<_>>());
                        self.violate(&format!("address-outside-the-clients-set/{}", kind), d);
                    }
                    None => self.violate("answered-without-configured-pool", format!("yiaddr={}", ipj(rep.yiaddr))),
                }
            }
        }

        // ---- C09 ----
        if self.prop == Prop::C09 && !must_ignore {
            if let Some(p) = &pool {
                let near = |e: i64| (e - t_before).abs() <= BOUNDARY || (e - t_after).abs() <= BOUNDARY;
                let boundary = self.held.iter().any(|(a, h)| {
                    (p.contains(a) || h.client == ident) && near(h.expire)
                });
                if boundary {
                    self.leg.count("skipped_at_boundary", 1);
                } else {
                    let a_set: BTreeSet<u32> = p
                        .iter()
                        .copied()
                        .filter(|x| {
                            self.held
                                .get(x)
                                .map(|h| h.client == ident && h.expire > t_after)
                                .unwrap_or(false)
                        })
                        .collect();
                    // which address does the message name?
                    let named: Option<u32> = if m.mtype == Some(1) {
                        m.opt50
                    } else {
                        match (m.ciaddr, m.opt50) {
                            (Some(c), Some(o)) if c != o && a_set.contains(&c) && a_set.contains(&o) => None, // ambiguous: unconstrained
                            (Some(c), _) => Some(c),
                            (None, o) => o,
                        }
                    };
                    let multi_outside = self.held.iter().any(|(a, h)| h.client == ident && h.expire > t_after && !p.contains(a));
                    match &out {
                        Outcome::Reply(rep) => {
                            if !a_set.is_empty() {
                                if !a_set.contains(&rep.yiaddr) {
                                    let sig = if multi_outside { "held-lease-not-returned/also-holds-lease-outside-pool" } else { "held-lease-not-returned" };
                                    self.violate(sig, format!("client {} holds {:?} in pool but was given {}", hex(&ident), a_set.iter().map(|x| ipj(*x)).collect::<Vec<_>>(), ipj(rep.yiaddr)));
                                } else if let Some(n) = named {
                                    if a_set.contains(&n) && rep.yiaddr != n {
                                        self.violate("named-held-address-not-returned", format!("client named {} (held) but was given {}", ipj(n), ipj(rep.yiaddr)));
                                    }
                                }
                                self.leg.count("kept_address_checks", 1);
                            }
                        }
                        Outcome::Refused(k) if k == "NoAssignableAddress" => {
                            if !a_set.is_empty() {
                                let sig = if multi_outside { "refused-although-holding/also-holds-lease-outside-pool" } else { "refused-although-holding" };
                                self.violate(sig, format!("client {} holds {:?} but was refused", hex(&ident), a_set));
                            } else {
                                let free: Vec<u32> = p
                                    .iter()
                                    .copied()
                                    .filter(|x| {
                                        !self
                                            .held
                                            .get(x)
                                            .map(|h| h.client != ident && h.expire > t_after)
                                            .unwrap_or(false)
                                    })
                                    .collect();
                                if !free.is_empty() {
                                    let sig = if multi_outside { "refused-with-free-address/also-holds-lease-outside-pool" } else { "refused-with-free-address" };
                                    self.violate(sig, format!("refused although {:?} not held by another client", free.iter().map(|x| ipj(*x)).collect::<Vec<_>>()));
                                }
                                self.leg.count("exhaustion_checks", 1);
                            }
                        }
                        Outcome::Refused(k) => {
                            self.violate(&format!("unexpected-refusal/{}", k.split('(').next().unwrap_or("")), format!("pool {:?} outcome {}", p.iter().map(|x| ipj(*x)).collect::<Vec<_>>(), k));
                        }
                    }
                }
            }
        }

        // ---- C10 ----
        if self.prop == Prop::C10 {
            // promises made by EARLIER replies must still be backed by the store, whatever this message was about: the
            // row of a promised address may only change through a newer reply for that same address
            let this_addr = if let Outcome::Reply(rep) = &out { Some(rep.yiaddr) } else { None };
            let mut broken: Vec<(u32, String)> = Vec::new();
            for (a, (c, until)) in &self.promises {
                if Some(*a) == this_addr || *until <= t_after + BOUNDARY {
                    continue;
                }
                self.leg.count("earlier_promises_rechecked", 1);
                match after.get(a) {
                    None => broken.push((*a, format!("{} was promised to {} until {} ({} s from now) but its row is gone after a {} from {}", ipj(*a), hex(c), until, until - t_after, kind, hex(&ident)))),
                    Some(row) if row.client != *c => broken.push((*a, format!("{} was promised to {} until {} but its row now names {}", ipj(*a), hex(c), until, hex(&row.client)))),
                    Some(row) if row.expire < *until => broken.push((*a, format!("{} was promised to {} until {} ({} s from now) but after a {} from {} its row expires at {}", ipj(*a), hex(c), until, until - t_after, kind, hex(&ident), row.expire))),
                    _ => {}
                }
            }
            for (a, d) in broken {
                self.promises.remove(&a);
                self.violate("earlier-promise-no-longer-backed-by-record", d);
            }
            if let Outcome::Reply(rep) = &out {
                if let Some(v) = rep.lease.as_ref().filter(|v| v.len() == 4) {
                    let l = u32::from_be_bytes([v[0], v[1], v[2], v[3]]) as i64;
                    self.promises.insert(rep.yiaddr, (ident.clone(), t_before + l));
                }
            }
            if let Outcome::Reply(rep) = &out {
                match &rep.lease {
                    None => self.violate(&format!("no-lease-time/{}", kind), format!("reply to {} carries no option 51", kind)),
                    Some(v) if v.len() != 4 => self.violate("lease-time-bad-length", format!("{:?}", v)),
                    Some(v) => {
                        let l = u32::from_be_bytes([v[0], v[1], v[2], v[3]]) as i64;
                        if !(300..=86_400).contains(&l) {
                            self.violate("lease-time-out-of-bounds", format!("L={}", l));
                        }
                        match after.get(&rep.yiaddr) {
                            None => self.violate("reply-without-record", format!("no row for {}", ipj(rep.yiaddr))),
                            Some(row) => {
                                if row.expire - row.start != l {
                                    self.violate("record-length-differs-from-advertised", format!("L={} recorded {}..{}", l, row.start, row.expire));
                                }
                                if row.expire < t_before + l {
                                    self.violate("record-expires-before-advertised", format!("t={} L={} recorded expiry {}", t_before, l, row.expire));
                                }
                                if row.start > t_after || row.start < t_before {
                                    self.violate("record-start-not-now", format!("start {} not in [{}, {}]", row.start, t_before, t_after));
                                }
                            }
                        }
                        self.leg.class(format!("L={}", if l == 300 { "min".into() } else if l == 86_400 { "max".into() } else { format!("x{}", l / 300) }));
                    }
                }
            }
        }

        // ---- C20 (gauge part) ----
        if self.prop == Prop::C20 {
            let t0 = now_s();
            let metrics = guard::guard(|| self.srv.pool.get_pool_metrics());
            let t1 = now_s();
            let near = after.values().any(|r| (r.expire - t0).abs() <= BOUNDARY || (r.expire - t1).abs() <= BOUNDARY);
            let active = after.values().filter(|r| r.expire > t1).count() as u32;
            let expired = after.len() as u32 - active;
            match metrics {
                Err(p) => self.violate(&format!("metrics-panic/{}", p.site()), p.message.clone()),
                Ok(Err(e)) => {
                    if after.is_empty() {
                        self.leg.count("metrics_error_on_empty_store", 1);
                    } else {
                        self.violate("metrics-error", format!("{}", e));
                    }
                }
                Ok(Ok((a, e))) => {
                    if near {
                        self.leg.count("skipped_at_boundary", 1);
                    } else if (a, e) != (active, expired) {
                        let sig = if (a, e) == (expired, active) && active != expired { "gauges-swapped" } else { "gauges-wrong" };
                        self.violate(sig, format!("store has {} live / {} expired leases, metrics say active={} expired={}", active, expired, a, e));
                    }
                    self.leg.class(format!("gauge|{}|{}", active.min(3), expired.min(3)));
                }
            }
        }

        // ---- C18 twin ----
        if self.prop == Prop::C18 && !self.abandoned_twin {
            if let Some(mut tw) = self.twin.take() {
                let tb = snapshot(&mut tw.pool)?;
                let tout = tw.handle(w, m);
                let t_after2 = now_s();
                let ta = snapshot(&mut tw.pool)?;
                let _ = &tb;
                if t_after2 != t_before {
                    // the clock ticked between the two calls: the two stores may legitimately
                    // diverge (by a second) from here on.
                    self.abandoned_twin = true;
                    self.leg.count("twin_abandoned_at_boundary", 1);
                } else {
                    let same = match (&out, &tout) {
                        (Outcome::Reply(a), Ok(Outcome::Reply(b))) => {
                            let la = a.lease.as_ref().map(|v| if v.len() == 4 { u32::from_be_bytes([v[0], v[1], v[2], v[3]]) as i64 } else { -1 });
                            let lb = b.lease.as_ref().map(|v| if v.len() == 4 { u32::from_be_bytes([v[0], v[1], v[2], v[3]]) as i64 } else { -1 });
                            let lease_ok = match (la, lb) {
                                (Some(x), Some(y)) => (x - y).abs() <= 3,
                                (None, None) => true,
                                _ => false,
                            };
                            a.yiaddr == b.yiaddr && a.mtype == b.mtype && lease_ok
                        }
                        (Outcome::Refused(a), Ok(Outcome::Refused(b))) => a.split('(').next() == b.split('(').next(),
                        _ => false,
                    };
                    self.leg.count("twin_comparisons", 1);
                    if !same {
                        self.violate("restarted-server-behaves-differently", format!("restarted: {:?}; uninterrupted: {:?}", out, tout.as_ref().ok()));
                        self.abandoned_twin = true;
                    }
                    // rows must agree as well (address, client; times within skew)
                    let rows_same = after.len() == ta.len()
                        && after.iter().zip(ta.iter()).all(|((a1, r1), (a2, r2))| {
                            a1 == a2 && r1.client == r2.client && (r1.start - r2.start).abs() <= 4 && (r1.expire - r2.expire).abs() <= 8
                        });
                    if same && !rows_same {
                        self.violate("restarted-store-differs", format!("restarted rows {:?}; uninterrupted rows {:?}", after, ta));
                        self.abandoned_twin = true;
                    }
                }
                self.twin = Some(tw);
            }
        }

        // ---- update the monitor's ownership map from what the server recorded ----
        if let Outcome::Reply(rep) = &out {
            self.last_addr.insert(m.client, rep.yiaddr);
            match after.get(&rep.yiaddr) {
                Some(row) if row.client == ident => {
                    self.held.insert(
                        rep.yiaddr,
                        Held {
                            client: ident.clone(),
                            expire: row.expire,
                        },
                    );
                }
                other => {
                    if matches!(self.prop, Prop::C01 | Prop::C18 | Prop::C10) {
                        self.violate(
                            "reply-without-matching-record",
                            format!("reply {} to {} but recorded row is {:?}", ipj(rep.yiaddr), hex(&ident), other),
                        );
                    }
                }
            }
            self.leg.count("replies", 1);
        } else {
            self.leg.count("refusals", 1);
        }
        Ok(())
    }
}

// ---------------------------------------------------------------------------------------------
// Leg entry points
// ---------------------------------------------------------------------------------------------

pub fn prop_from(s: &str) -> Option<Prop> {
    Some(match s {
        "C01" => Prop::C01,
        "C02" => Prop::C02,
        "C09" => Prop::C09,
        "C10" => Prop::C10,
        "C13" => Prop::C13,
        "C18" => Prop::C18,
        "C20" => Prop::C20,
        _ => return None,
    })
}

fn rule_for(p: Prop) -> &'static str {
    match p {
        Prop::C01 => "generated DHCP histories (3-6 clients incl. identity overlaps, pools of 1-5 addresses, reservations, clock advances around lease boundaries, config switches) through dhcp::handle_pkt; every reply checked against the ownership map built from the rows the server recorded; distinct = (message kind, address named via, server-id kind, client holds a lease, pool contention, outcome)",
        Prop::C09 => "same histories; every answered step checked: held address returned, named held address returned, refusal only when every pool address is held by another client; distinct = (message kind, named via, server-id kind, holds, contention, outcome); plus pools of 1100..4094 addresses filled through allocate_address until 1..5 are free: newcomers must be given exactly the free ones before anybody is refused",
        Prop::C10 => "same histories with renewal rhythms; every reply: option 51 present, 300<=L<=86400, recorded expiry-start = L, recorded expiry >= t+L; after EVERY later message each still-running earlier promise (address, client, t+L) must still be backed by its row unless a newer reply for that address superseded it; distinct = step classes plus lease-length buckets reached",
        Prop::C13 => "same histories plus every message type 0..255/absent, server-id absent/own/foreign/wrong length, extra options, interfaces without a pool; full-row snapshot diff around every call and header/option echo comparison; distinct = step classes",
        Prop::C18 => "file-backed histories with restarts (close + reopen) in lock-step with a never-restarted twin: rows identical across reopen, replies identical to the twin's; distinct = step classes",
        Prop::C02 => "same histories (several subnets and interfaces, reservations, config switches, REQUESTs naming any of the server's own identifiers, relayed messages, restarts of nothing): every address offered or acknowledged must lie in the set the configuration in force grants that client on the interface the message arrived on (a matching reservation, else the range minus every reserved address); distinct = step classes",
        Prop::C20 => "same histories; after every step Pool::get_pool_metrics() compared with counts computed from the rows and the clock; distinct = step classes plus (live, expired) count buckets",
    }
}

pub struct HistParams {
    pub histories: u64,
    pub min_steps: u64,
    pub max_steps: u64,
    pub shards: u64,
}

pub fn run(prop: Prop, seed: u64, params: &HistParams, scratch: &std::path::Path) -> Leg {
    let name = format!("{:?}-dhcp-history", prop).to_lowercase();
    let mut total = Leg::new(&name, &format!("{:?}", prop), rule_for(prop));
    total.floor = 200;
    let mut handles = Vec::new();
    for shard in 0..params.shards {
        let mut leg = total.child();
        let per = params.histories.div_ceil(params.shards);
        let (min_steps, max_steps) = (params.min_steps, params.max_steps);
        let scratch = scratch.to_path_buf();
        handles.push(std::thread::spawn(move || {
            for h in 0..per {
                let mut r = Rng::derive(seed, shard, h);
                let w = gen_world(&mut r);
                let coords = json!({"seed": seed, "shard": shard, "history": h});
                let tag = format!("h{}-{}-{}", seed, shard, h);
                let nsteps = r.range(min_steps, max_steps);
                let mut sample_trace = None;
                {
                    let mut run = match HistoryRun::new(&w, prop, &mut leg, &scratch, &tag, coords) {
                        Ok(r) => r,
                        Err(e) => {
                            leg.inconclusive(format!("history setup failed: {}", e));
                            continue;
                        }
                    };
                    // the first history of every shard (C10 and C18 only: each message during the episode waits for the
                    // store's 5 s busy timeout) has one episode in which another process holds the database's write lock
                    let lock_at = if h == 0 && matches!(prop, Prop::C10 | Prop::C18) { Some(r.range(3, min_steps.max(4))) } else { None };
                    for k in 0..nsteps {
                        if lock_at == Some(k) {
                            let mut ok = run.step(Op::ForeignLock(true)).is_ok();
                            for _ in 0..2 {
                                // messages only (a restart or a clock shift would itself need the lock)
                                let mut op = run.gen_op(&mut r);
                                let mut tries = 0;
                                while !matches!(op, Op::Msg(_)) && tries < 20 {
                                    op = run.gen_op(&mut r);
                                    tries += 1;
                                }
                                if ok && matches!(op, Op::Msg(_)) {
                                    ok = run.step(op).is_ok() && !run.violated;
                                }
                            }
                            let _ = run.step(Op::ForeignLock(false));
                            if run.violated {
                                break;
                            }
                        }
                        let op = run.gen_op(&mut r);
                        if let Err(e) = run.step(op) {
                            if !run.violated {
                                run.leg.inconclusive(format!("step failed: {}", e));
                            }
                            break;
                        }
                        if run.violated {
                            break;
                        }
                    }
                    run.cleanup();
                    if run.leg.wants_sample() {
                        sample_trace = Some(json!({
                            "world": world_to_json(&w),
                            "first_ops": run.trace.iter().take(12).map(|o| o.to_json()).collect::<Vec<_>>(),
                            "steps": run.trace.len(),
                        }));
                    }
                }
                if let Some(s) = sample_trace {
                    leg.sample(s);
                }
                leg.count("histories", 1);
                if w.store_origin != 0 && (prop == Prop::C18 || prop == Prop::C01) {
                    leg.count("histories_on_a_store_created_by_an_older_release", 1);
                }
            }
            leg
        }));
    }
    for h in handles {
        match h.join() {
            Ok(l) => total.merge(l),
            Err(_) => total.inconclusive("shard thread died"),
        }
    }
    if prop == Prop::C09 || prop == Prop::C01 {
        let mut leg = total.child();
        let n = if params.histories > 5_000 { 12 } else { 4 };
        for k in 0..n {
            c09_large_pool(&mut leg, seed, k, prop);
        }
        total.merge(leg);
    }
    total
}

/// C09's refusal clause on pools far larger than the histories use: N addresses of which all but `free` are held by
/// other clients; newcomers must be given the free ones, and only then be refused.
fn c09_large_pool(leg: &mut Leg, seed: u64, k: u64, prop: Prop) {
    let mut r = Rng::derive(seed, 0xC09B, k);
    let n = *r.pick(&[1_100usize, 1_500, 2_046, 3_000, 4_094]);
    let free = *r.pick(&[1usize, 2, 5]);
    let replay = json!({"engine": "c09-large-pool", "seed": seed, "k": k, "pool": n, "free": free});
    leg.eval();
    let base = u32::from(Ipv4Addr::new(10, 60, 0, 1));
    let all: Vec<u32> = (0..n as u32).map(|i| base + i).collect();
    let mut free_set: BTreeSet<u32> = BTreeSet::new();
    while free_set.len() < free {
        free_set.insert(*r.pick(&all));
    }
    let addrs: pool::PoolAddresses = all.iter().map(|a| Ipv4Addr::from(*a)).collect();
    let (lo, hi) = (std::time::Duration::from_secs(300), std::time::Duration::from_secs(86_400));
    let res = guard::guard(|| -> Result<Vec<(String, String)>, String> {
        let mut p = pool::Pool::new_in_memory().map_err(|e| e.to_string())?;
        for a in &all {
            if free_set.contains(a) {
                continue;
            }
            let cid = [b"holder-".to_vec(), a.to_be_bytes().to_vec()].concat();
            let l = p.allocate_address(&cid, Some(Ipv4Addr::from(*a)), &addrs, lo, hi, b"\xff").map_err(|e| format!("filling the pool: {}", e))?;
            if u32::from(l.ip) != *a {
                return Err(format!("filling the pool: asked for {} as a new client, given {}", ipj(*a), l.ip));
            }
        }
        let mut viol = Vec::new();
        let mut left = free_set.clone();
        for j in 0..free + 2 {
            let cid = format!("newcomer-{}-{}", k, j).into_bytes();
            match p.allocate_address(&cid, None, &addrs, lo, hi, b"\xff") {
                Ok(l) => {
                    let a = u32::from(l.ip);
                    if !left.remove(&a) {
                        viol.push((if prop == Prop::C01 { "double-lease/large-pool" } else { "large-pool/newcomer-given-a-held-address" }.to_string(), format!("pool of {}: newcomer {} given {} which another client holds (unexpired)", n, j, l.ip)));
                    }
                }
                Err(e) => {
                    if !left.is_empty() && prop == Prop::C09 {
                        viol.push((
                            "refused-although-an-address-is-free/large-pool".to_string(),
                            format!("pool of {} addresses, {} held by others, {} still free ({}), yet newcomer {} is refused: {}", n, n - free, left.len(), ipj(*left.iter().next().unwrap()), j, e),
                        ));
                        break;
                    }
                }
            }
        }
        Ok(viol)
    });
    leg.class(format!("large-pool|{}|free{}", n, free));
    leg.count("large_pool_scenarios", 1);
    match res {
        Err(p) => leg.violation(format!("{:?}/large-pool-panic/{}", prop, p.class()), format!("{} at {}", p.message, p.location), replay),
        Ok(Err(e)) => leg.inconclusive(format!("large pool scenario: {}", e)),
        Ok(Ok(viol)) => {
            for (sig, d) in viol {
                leg.violation(format!("{:?}/{}", prop, sig), d, replay.clone());
            }
        }
    }
}

/// Re-execute a recorded history (replay file written on violation).
pub fn replay(v: &Value, scratch: &std::path::Path) -> Leg {
    let prop = prop_from(v["property"].as_str().unwrap_or("")).unwrap_or(Prop::C01);
    let mut leg = Leg::new("dhcp-history-replay", &format!("{:?}", prop), rule_for(prop));
    let w = match world_from_json(&v["world"]) {
        Some(w) => w,
        None => {
            leg.inconclusive("replay file has no world");
            return leg;
        }
    };
    let ops: Vec<Op> = v["ops"]
        .as_array()
        .map(|a| a.iter().filter_map(Op::from_json).collect())
        .unwrap_or_default();
    {
        let mut run = match HistoryRun::new(&w, prop, &mut leg, scratch, "replay", v["coords"].clone()) {
            Ok(r) => r,
            Err(e) => {
                leg.inconclusive(e);
                return leg;
            }
        };
        for op in ops {
            if run.step(op).is_err() {
                break;
            }
        }
        run.cleanup();
    }
    leg
}
