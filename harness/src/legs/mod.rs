pub mod c05;
pub mod c08;
pub mod c12;
pub mod c17;
pub mod c19;
pub mod dhcp_hist;
pub mod dnsmisc;
pub mod dnswire;
