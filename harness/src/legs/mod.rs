pub mod c05;
pub mod c12;
pub mod dhcp_hist;
