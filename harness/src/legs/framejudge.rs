//! Offline judge for DHCP reply frames captured on the client end of the veth pair (C12 e2e).

use crate::refcodec::dhcp as rd;
use crate::refcodec::frame;
use crate::report::{Leg, unhex};
use serde_json::{Value, json};
use std::net::Ipv4Addr;

pub fn judge(events_path: &str) -> Leg {
    let mut leg = Leg::new(
        "c12-frames-e2e-judge",
        "C12",
        "frames sent by the real erbium-dhcp over a veth pair in answer to DISCOVER/REQUEST with flags {0, 0x8000, 0x0080, 0x7fff, 0xffff, random} and replies of several sizes (incl. an option value longer than 255 octets): Ethernet/IPv4/UDP decoded with checksum verification, DHCP payload decoded by the reference decoder, IPv4 destination = 255.255.255.255 iff bit 15 of the request's flags else yiaddr, source = server address port 67, destination MAC = chaddr; distinct = (flags class, message type, payload size class)",
    );
    leg.floor = 20;
    let text = std::fs::read_to_string(events_path).unwrap_or_default();
    for line in text.lines() {
        let ev: Value = match serde_json::from_str(line) {
            Ok(v) => v,
            Err(_) => continue,
        };
        leg.eval();
        let flags = ev["flags"].as_u64().unwrap_or(0) as u16;
        let replay = json!({"engine": "c12-e2e", "event": ev});
        let fhex = match ev["frame_hex"].as_str() {
            Some(h) => h,
            None => {
                leg.violation("C12/e2e/no-reply-frame", format!("flags {:#06x} kind {}", flags, ev["kind"]), replay);
                continue;
            }
        };
        let f = unhex(fhex);
        let u = match frame::decode_udp4(&f) {
            Ok(u) => u,
            Err(e) => {
                let class: String = e.chars().filter(|c| !c.is_ascii_digit()).take(40).collect();
                leg.violation(format!("C12/e2e/frame-invalid/{}", class.trim()), e, replay);
                continue;
            }
        };
        let m = match rd::decode(&u.payload, true, true) {
            Ok(m) => m,
            Err(e) => {
                leg.violation("C12/e2e/dhcp-payload-undecodable", e, replay);
                continue;
            }
        };
        let want_bcast = flags & 0x8000 != 0;
        let fclass = match flags {
            0 => "0",
            0x8000 => "8000",
            0x0080 => "0080",
            0x7fff => "7fff",
            0xffff => "ffff",
            _ => "other",
        };
        leg.class(format!("flags{}|type{:?}|len{}|{}", fclass, m.opt(53), u.payload.len() / 128, if ev["renewing"].as_bool() == Some(true) { "renewing" } else { "selecting" }));
        if ev["renewing"].as_bool() == Some(true) {
            leg.count("renewing_requests_judged", 1);
        }
        let expect_dst = if want_bcast { Ipv4Addr::BROADCAST } else { m.yiaddr };
        if u.dst != expect_dst {
            leg.violation(
                if want_bcast { "C12/e2e/broadcast-requested-but-unicast" } else { "C12/e2e/unicast-expected-but-other-destination" },
                format!("request flags {:#06x}: frame sent to {}, expected {}", flags, u.dst, expect_dst),
                replay,
            );
            continue;
        }
        let server: Ipv4Addr = ev["server_ip"].as_str().unwrap_or("0.0.0.0").parse().unwrap_or(Ipv4Addr::UNSPECIFIED);
        if u.src != server || u.sport != 67 || u.dport != 68 {
            leg.violation("C12/e2e/wrong-source-or-ports", format!("{}:{} -> {}:{}", u.src, u.sport, u.dst, u.dport), replay);
            continue;
        }
        let ch = unhex(ev["chaddr_hex"].as_str().unwrap_or(""));
        // The property fixes the IPv4 destination, not the Ethernet one; what it does say is that the client reads the reply,
        // so the frame must be one the client's interface takes in: addressed to its hardware address or to everybody.
        if ch.len() == 6 && u.dst_mac[..] != ch[..] && u.dst_mac != [0xff; 6] {
            leg.violation("C12/e2e/destination-mac-neither-chaddr-nor-broadcast", format!("{:02x?} vs chaddr {:02x?}", u.dst_mac, ch), replay);
            continue;
        }
        leg.count(if u.dst_mac == [0xff; 6] { "frames_to_the_ethernet_broadcast_address" } else { "frames_to_the_clients_hardware_address" }, 1);
        if m.xid as u64 != ev["xid"].as_u64().unwrap_or(0) || m.flags != flags || m.chaddr != ch {
            leg.violation("C12/e2e/reply-does-not-echo-request", format!("xid {:#x} flags {:#06x} chaddr {:02x?}", m.xid, m.flags, m.chaddr), replay);
            continue;
        }
        if let Some(want) = ev["expect_option_15_len"].as_u64() {
            let got = m.opt(15).map(|v| v.len() as u64).unwrap_or(0);
            if got != want {
                leg.violation("C12/e2e/long-option-garbled-on-the-wire", format!("domain-name option: {} octets configured, {} decoded", want, got), replay);
            } else {
                leg.count("long_options_decoded", 1);
            }
        }
        if leg.wants_sample() {
            leg.sample(json!({"flags": flags, "dst": u.dst.to_string(), "yiaddr": m.yiaddr.to_string(), "payload_octets": u.payload.len()}));
        }
    }
    leg
}
