//! In-process DNS wire legs: C14 (decode/encode round trip + compression), C04 (size limits and
//! truncation through serialise_with_size), C03 (reply construction is faithful to the upstream).

use crate::corpus;
use crate::guard;
use crate::mutate;
use crate::refcodec::dns as rn;
use crate::report::{Leg, hex};
use crate::rng::Rng;
use erbium::dns::verif as ev;
use erbium_net::addr::WithPort as _;
use serde_json::json;
use std::net::Ipv4Addr;

fn file_of(p: &guard::Panicked) -> String {
    p.site().split(':').next().unwrap_or("").to_string()
}

// ------------------------------------------------------------------------------------------ C14

/// accepted bytes -> encode -> decode must be the identical message; the encoding must have
/// valid backward pointers.
fn c14_bytes(leg: &mut Leg, b: &[u8], how: &str) {
    leg.eval();
    let res = guard::timed(b, || {
        let m = match ev::parse(b) {
            Ok(m) => m,
            Err(_) => return None,
        };
        let b2 = m.serialise();
        let m2 = ev::parse(&b2);
        Some((m, b2, m2))
    });
    let replay = json!({"engine": "c14", "kind": "bytes", "wire_hex": hex(b), "how": how});
    match res {
        Err(p) => leg.violation(format!("C14/panic/{}/{}", file_of(&p), p.class()), format!("{} at {} ({}; {} octets)", p.message, p.location, how, b.len()), replay),
        Ok(None) => leg.count("bytes_rejected_by_decoder", 1),
        Ok(Some((m, b2, m2))) => {
            leg.count("bytes_accepted_by_decoder", 1);
            leg.class(format!("bytes|{}|an{}|ns{}|ar{}|edns{}|tc{}", how.split('@').next().unwrap_or(""), m.answer.len().min(4), m.nameserver.len().min(4), m.additional.len().min(4), m.edns.is_some(), m.tc));
            match m2 {
                Err(e) => leg.violation("C14/own-encoding-rejected", format!("decode(encode(m)) failed: {}", e), replay),
                Ok(m2) => {
                    if m2 != m {
                        leg.violation("C14/roundtrip-differs", format!("decoded {:?}\nre-decoded {:?}", m, m2), replay);
                    } else if let Err(e) = rn::decode(&b2, true) {
                        leg.violation("C14/encoding-invalid-for-reference-decoder", e, replay);
                    }
                }
            }
        }
    }
}

pub fn size_class(n: usize) -> &'static str {
    match n {
        0..=512 => "<=512",
        513..=4096 => "<=4k",
        4097..=16383 => "<16k",
        16384..=40000 => "<40k",
        _ => ">=40k",
    }
}

fn compare_sections(orig: &rn::Msg, got: &rn::Msg) -> Option<(String, String)> {
    for (name, a, b) in [
        ("answer", &orig.answer, &got.answer),
        ("authority", &orig.authority, &got.authority),
        ("additional", &orig.additional, &got.additional),
    ] {
        if a.len() != b.len() {
            return Some((format!("{}-count", name), format!("{} section: {} records upstream, {} relayed", name, a.len(), b.len())));
        }
        for (i, (x, y)) in a.iter().zip(b.iter()).enumerate() {
            if x != y {
                let what = if x.name != y.name {
                    "owner"
                } else if x.rtype != y.rtype {
                    "type"
                } else if x.class != y.class {
                    "class"
                } else if x.ttl != y.ttl {
                    "ttl"
                } else {
                    "rdata"
                };
                return Some((format!("{}-{}", name, what), format!("{} record {}: upstream [{}] relayed [{}]", name, i, rn::rr_brief(x), rn::rr_brief(y))));
            }
        }
    }
    None
}

/// structured message -> reference encoding -> erbium decode -> erbium encode -> both decoders.
fn c14_structured(leg: &mut Leg, orig: &rn::Msg, mode: rn::Compress) {
    leg.eval();
    let b1 = rn::encode(orig, mode);
    if b1.len() > 65_535 {
        leg.count("generated_too_large_skipped", 1);
        return;
    }
    let replay = json!({"engine": "c14", "kind": "structured", "wire_hex": hex(&b1)});
    let res = guard::timed(&b1, || {
        let m = ev::parse(&b1)?;
        let b2 = m.serialise();
        let m2 = ev::parse(&b2);
        Ok::<_, String>((m, b2, m2))
    });
    let nrec = orig.answer.len() + orig.authority.len() + orig.additional.len();
    match res {
        Err(p) => leg.violation(
            format!("C14/panic/{}/{}", file_of(&p), p.class()),
            format!("{} at {} (structured message, {} records, {} octets as sent)", p.message, p.location, nrec, b1.len()),
            replay,
        ),
        Ok(Err(e)) => {
            // the decoder refusing a well-formed message is C03's concern; counted here
            leg.count("wellformed_rejected", 1);
            leg.sample(json!({"rejected": e}));
        }
        Ok(Ok((_m, b2, _m2))) if b2.len() > 65_535 => {
            // the property speaks about messages of up to 65535 octets: how a tree encodes (compresses) is its own business,
            // and when ITS encoding of this message does not fit, the message is outside the quantifier
            leg.count("own_encoding_beyond_65535_skipped", 1);
        }
        Ok(Ok((m, b2, m2))) => {
            leg.class(format!("structured|{}|rec{}|{:?}", size_class(b2.len()), match nrec { 0 => "0", 1..=9 => "s", 10..=99 => "m", 100..=999 => "l", _ => "xl" }, std::mem::discriminant(&mode)));
            leg.max("max_encoded_len", b2.len() as u64);
            if b2.len() >= 16_384 {
                leg.count("messages_beyond_16k", 1);
            }
            match m2 {
                Err(e) => leg.violation(format!("C14/own-encoding-rejected/{}", size_class(b2.len())), format!("{} octets: {}", b2.len(), e), replay),
                Ok(m2) if m2 != m && m2.tc && !m.tc && b2.len() > 60_000 => {
                    // the tree's own encoding of this message did not fit 65535 octets and was cut (TC set): outside the quantifier
                    leg.count("own_encoding_beyond_65535_skipped", 1);
                }
                Ok(m2) if m2 != m => leg.violation(format!("C14/roundtrip-differs/{}", size_class(b2.len())), format!("{} records, {} octets", nrec, b2.len()), replay),
                Ok(_) => match rn::decode(&b2, true) {
                    Err(e) => leg.violation(format!("C14/bad-compression-pointer/{}", size_class(b2.len())), format!("{} octets: {}", b2.len(), e), replay),
                    Ok((r2, st)) => {
                        leg.max("max_pointer_target", st.max_pointer_target as u64);
                        leg.count("pointers_validated", st.pointers as u64);
                        if r2.questions != orig.questions {
                            leg.violation("C14/question-differs", format!("{:?} != {:?}", orig.questions, r2.questions), replay);
                        } else if let Some((class, detail)) = compare_sections(orig, &r2) {
                            leg.violation(format!("C14/reference-decode-differs/{}", class), detail, replay);
                        } else if r2.id != orig.id || (r2.flags & !0x0040) != (orig.flags & !0x0040) {
                            leg.violation("C14/header-differs", format!("id {:#x}/{:#x} flags {:#06x}/{:#06x}", orig.id, r2.id, orig.flags, r2.flags), replay);
                        } else if let (Some(a), Some(b)) = (&orig.opt, &r2.opt) {
                            if a.ext_rcode != b.ext_rcode || a.version != b.version || (a.flags & 0x8000) != (b.flags & 0x8000) || a.options != b.options || b.udp_size != a.udp_size.max(512) {
                                leg.violation("C14/edns-differs", format!("{:?} != {:?}", a, b), replay);
                            }
                        } else if orig.opt.is_some() != r2.opt.is_some() {
                            leg.violation("C14/edns-presence-differs", format!("{:?} vs {:?}", orig.opt, r2.opt), replay);
                        }
                    }
                },
            }
        }
    }
}

thread_local! {
    /// confusable sibling pairs placed by gen_structured on this thread, by kind (drained into the leg's counts)
    pub static SIBLING_KINDS: std::cell::RefCell<std::collections::BTreeMap<String, u64>> = const { std::cell::RefCell::new(std::collections::BTreeMap::new()) };
}

pub fn gen_structured(r: &mut Rng, big: bool) -> rn::Msg {
    let names = rn::gen_name_pool(r, 6, false);
    let qn = r.pick(&names).clone();
    let q = rn::gen_query(r, qn, false);
    let nrec = if big {
        r.range(300, 2000) as usize
    } else {
        match r.below(10) {
            0 => 0,
            1..=6 => r.range(1, 12) as usize,
            7..=8 => r.range(12, 120) as usize,
            _ => r.range(120, 400) as usize,
        }
    };
    let max_opaque = if big { *r.pick(&[8usize, 40, 200]) } else { *r.pick(&[16usize, 300, 4000]) };
    let hostile = r.chance(1, 4);
    let mut m = rn::gen_reply(r, &q, nrec, max_opaque, hostile);
    if r.chance(1, 30) {
        let l = r.range(20_000, 60_000) as usize;
        m.answer.insert(0, rn::Rr { name: r.pick(&names).clone(), rtype: 16, class: 1, ttl: 1, rdata: r.bytes(l) });
    }
    if r.chance(1, 12) {
        // a staircase: every name is the previous one with one more label in front, written in that order, so an
        // encoder that compresses each against the one before produces a pointer chain as deep as the staircase
        // (a name has at most 127 labels)
        let depth = *r.pick(&[3usize, 9, 10, 11, 12, 16, 40, 100, 126]);
        let mut name: rn::Name = if r.bool() { vec![] } else { m.questions[0].name.iter().rev().take(1).cloned().collect() };
        let mut stairs = Vec::new();
        for k in 0..depth {
            let cur: usize = name.iter().map(|x| x.len() + 1).sum::<usize>() + 1;
            if cur + 2 > 255 {
                break;
            }
            name.insert(0, vec![b'a' + (k % 26) as u8]);
            let in_rdata = r.chance(1, 4);
            stairs.push(if in_rdata {
                let mut rd = Vec::new();
                rn::push_name(&mut rd, &name);
                rn::Rr { name: m.questions[0].name.clone(), rtype: *r.pick(&[2u16, 5, 12]), class: 1, ttl: 60, rdata: rd }
            } else {
                rn::Rr { name: name.clone(), rtype: 1, class: 1, ttl: 60, rdata: r.bytes(4) }
            });
        }
        // ... and many later mentions of the deepest name: two octets each on the wire, a whole chain each to expand
        let refs = *r.pick(&[0usize, 0, 10, 60, 250, 700]);
        let deepest = name.clone();
        for k in 0..refs {
            let mut rd = Vec::new();
            rn::push_name(&mut rd, &deepest);
            if k % 3 == 0 {
                rn::push_name(&mut rd, &deepest);
                stairs.push(rn::Rr { name: deepest.clone(), rtype: 17, class: 1, ttl: 60, rdata: rd });
            } else {
                stairs.push(rn::Rr { name: deepest.clone(), rtype: *r.pick(&[2u16, 5, 12]), class: 1, ttl: 60, rdata: rd });
            }
        }
        match r.below(3) {
            0 => m.answer.splice(0..0, stairs),
            1 => m.authority.splice(0..0, stairs),
            _ => m.additional.splice(0..0, stairs),
        };
    }
    if r.chance(1, 5) {
        // confusable siblings: different labels below one suffix that a dictionary keyed on anything weaker than the
        // label's octets (a 32-bit fingerprint, a prefix, ...) takes for one another
        let suffix: rn::Name = if r.bool() { m.questions[0].name.clone() } else { r.pick(&names).clone() };
        let room = 255usize.saturating_sub(suffix.iter().map(|x| x.len() + 1).sum::<usize>() + 1);
        let mut sib = Vec::new();
        for _ in 0..r.range(1, 4) {
            let (how, (x, y)) = crate::refcodec::weakhash::confusable_pair(r);
            if x.len().max(y.len()) + 1 > room {
                continue;
            }
            let mut nx = suffix.clone();
            nx.insert(0, x);
            let mut ny = suffix.clone();
            ny.insert(0, y);
            let mut how = how;
            if r.chance(1, 3) {
                // ... or names that print alike: "first\.last.S" and "first.last.S", "\7.S" and the label of one octet 7
                let l = crate::refcodec::weakhash::twinnable_label(r);
                if l.len() + 1 <= room {
                    let mut base = suffix.clone();
                    base.insert(0, l);
                    let twins = crate::refcodec::weakhash::text_twins(&base);
                    if !twins.is_empty() {
                        let (t, kind) = r.pick(&twins).clone();
                        if t.iter().map(|x| x.len() + 1).sum::<usize>() + 1 <= 255 {
                            how = format!("text-twin:{}", kind);
                            if r.bool() {
                                nx = base;
                                ny = t;
                            } else {
                                nx = t;
                                ny = base;
                            }
                        }
                    }
                }
            }
            SIBLING_KINDS.with(|k| *k.borrow_mut().entry(how).or_insert(0) += 1);
            let mut rd = Vec::new();
            rn::push_name(&mut rd, &ny);
            match r.below(3) {
                0 => {
                    // x.S CNAME y.S, then y.S A
                    sib.push(rn::Rr { name: nx, rtype: 5, class: 1, ttl: 300, rdata: rd });
                    sib.push(rn::Rr { name: ny, rtype: 1, class: 1, ttl: 300, rdata: r.bytes(4) });
                }
                1 => {
                    sib.push(rn::Rr { name: nx, rtype: 1, class: 1, ttl: 300, rdata: r.bytes(4) });
                    sib.push(rn::Rr { name: ny, rtype: 28, class: 1, ttl: 300, rdata: r.bytes(16) });
                }
                _ => {
                    // both inside record data (SOA: mname x.S, rname y.S)
                    let mut soa = Vec::new();
                    rn::push_name(&mut soa, &nx);
                    rn::push_name(&mut soa, &ny);
                    soa.extend(r.bytes(20));
                    sib.push(rn::Rr { name: suffix.clone(), rtype: 6, class: 1, ttl: 300, rdata: soa });
                }
            }
        }
        match r.below(3) {
            0 => m.answer.extend(sib),
            1 => drop(m.authority.splice(0..0, sib)),
            _ => drop(m.additional.splice(0..0, sib)),
        };
    }
    m
}

pub fn run_c14(seed: u64, thorough: bool, shards: u64) -> Leg {
    let mut total = Leg::new(
        "c14-roundtrip-inproc",
        "C14",
        "structured messages (0..2000 records, names sharing suffixes at every depth incl. staircases of up to 126 names each extending the previous one and sibling labels that collide under ten common 32-bit string hashes or differ in one bit/by a prefix, every record layout with embedded names, opaque rdata up to 60000 octets, three compression styles, sizes up to 65535 octets) through reference-encode -> erbium decode -> erbium encode -> erbium decode and the reference decoder with pointer validation; plus systematic, havoc and grammar-hostile byte inputs accepted by the decoder; distinct = (kind, encoded-size class, record-count class, compression style) or (kind, section shape)",
    );
    total.floor = 3_000;
    let n_struct: u64 = if thorough { 1_500_000 } else { 12_000 };
    let n_big: u64 = if thorough { 30_000 } else { 320 };
    let n_havoc: u64 = if thorough { 1_500_000 } else { 12_000 };
    let mut handles = Vec::new();
    for shard in 0..shards {
        let mut leg = total.child();
        handles.push(std::thread::spawn(move || {
            let mut r = Rng::derive(seed, shard, 0xC14);
            for i in 0..(n_struct + n_big) / shards {
                let big = i < n_big / shards;
                let m = gen_structured(&mut r, big);
                let mode = match r.below(3) {
                    0 => rn::Compress::None,
                    1 => rn::Compress::Full,
                    _ => rn::Compress::Random(r.next()),
                };
                if leg.wants_sample() && i % 7 == 0 {
                    leg.sample(json!({"kind": "structured", "question": rn::name_to_string(&m.questions[0].name), "answer": m.answer.len(), "authority": m.authority.len(), "additional": m.additional.len(), "first_records": m.answer.iter().take(3).map(rn::rr_brief).collect::<Vec<_>>()}));
                }
                c14_structured(&mut leg, &m, mode);
            }
            for (how, n) in SIBLING_KINDS.with(|k| std::mem::take(&mut *k.borrow_mut())) {
                leg.count(&format!("confusable_sibling_pairs_{}", how), n);
            }
            let seeds = corpus::dns_seeds();
            let mut gidx = 0u64;
            for (si, s) in seeds.iter().enumerate() {
                let n = mutate::systematic_count(s.len());
                let stride = if !thorough && n > 6_000 { n / 6_000 + 1 } else { 1 };
                let mut k = 0;
                while k < n {
                    gidx += 1;
                    if gidx % shards == shard {
                        let (b, d) = mutate::systematic(s, k);
                        c14_bytes(&mut leg, &b, &format!("systematic@seed{} {}", si, d));
                    }
                    k += stride;
                }
            }
            for _ in 0..n_havoc / shards {
                let (b, how) = match r.below(3) {
                    0 => {
                        let (b, d) = corpus::dns_hostile(&mut r);
                        (b, format!("hostile@{}", d))
                    }
                    _ => {
                        let s = r.pick(&seeds).clone();
                        let (b, _) = mutate::havoc(&mut r, &s, &seeds, 65_535);
                        (b, "havoc".to_string())
                    }
                };
                c14_bytes(&mut leg, &b, &how);
            }
            leg
        }));
    }
    for h in handles {
        match h.join() {
            Ok(l) => total.merge(l),
            Err(_) => total.inconclusive("shard thread died"),
        }
    }
    total
}

pub fn replay_c14(v: &serde_json::Value) -> Leg {
    let mut leg = Leg::new("c14-replay", "C14", "replay of one recorded case");
    let b = crate::report::unhex(v["wire_hex"].as_str().unwrap_or(""));
    if v["kind"].as_str() == Some("structured") {
        match rn::decode(&b, false) {
            Ok((m, _)) => c14_structured(&mut leg, &m, rn::Compress::None),
            Err(e) => leg.inconclusive(e),
        }
        c14_bytes(&mut leg, &b, "replay");
    } else {
        c14_bytes(&mut leg, &b, "replay");
    }
    leg
}

// ------------------------------------------------------------------------------------------ C04

fn all_records(m: &rn::Msg) -> Vec<rn::Rr> {
    let mut v: Vec<rn::Rr> = m.answer.iter().chain(m.authority.iter()).chain(m.additional.iter()).cloned().collect();
    if let Some(o) = &m.opt {
        v.push(rn::opt_rr(o));
    }
    v
}

/// One (message, limit) pair through prepare_to_send (= max(limit, 512) then serialise_with_size).
fn c04_case(leg: &mut Leg, wire: &[u8], limit: usize) {
    leg.eval();
    let replay = json!({"engine": "c04", "wire_hex": hex(wire), "limit": limit});
    let res = guard::timed(wire, || {
        let m = ev::parse(wire)?;
        let full = m.serialise();
        let out = ev::prepare_to_send(&m, limit);
        Ok::<_, String>((full, out))
    });
    let eff = limit.max(512);
    match res {
        Err(p) => leg.violation(format!("C04/panic/{}/{}", file_of(&p), p.class()), format!("{} at {} (limit {})", p.message, p.location, limit), replay),
        Ok(Err(_)) => leg.count("generated_rejected", 1),
        Ok(Ok((full, out))) => {
            let fits = full.len() <= eff;
            leg.class(format!("limit{}|full{}|{}", match limit { 0..=511 => "<512", 512 => "512", 513..=1232 => "<=1232", 1233..=4096 => "<=4096", _ => "big" }, size_class(full.len()), if fits { "fits" } else { "truncate" }));
            if out.len() > eff {
                leg.violation("C04/response-exceeds-limit", format!("limit {} (effective {}) but {} octets emitted", limit, eff, out.len()), replay);
                return;
            }
            let (fm, _) = match rn::decode(&full, true) {
                Ok(x) => x,
                Err(e) => {
                    // C14's subject (the unlimited encoding is broken); cannot judge truncation
                    leg.count("full_encoding_invalid_skipped", 1);
                    let _ = e;
                    return;
                }
            };
            match rn::decode(&out, true) {
                Err(e) => {
                    let class = if fits { "malformed-untruncated" } else { "malformed-after-truncation" };
                    leg.violation(format!("C04/{}", class), format!("limit {}: {} (full {} octets, emitted {})", limit, e, full.len(), out.len()), replay)
                }
                Ok((om, _)) => {
                    // The OPT pseudo-record may sit anywhere in the additional section (RFC 6891 6.1.1) and the reference
                    // decoder lifts it out, so it is judged on its own: kept (unchanged) or omitted, never "out of order".
                    let want_rr: Vec<rn::Rr> = fm.answer.iter().chain(fm.authority.iter()).chain(fm.additional.iter()).cloned().collect();
                    let got_rr: Vec<rn::Rr> = om.answer.iter().chain(om.authority.iter()).chain(om.additional.iter()).cloned().collect();
                    let opt_ok = match (&fm.opt, &om.opt) {
                        (_, None) => true,
                        (Some(a), Some(b)) => a == b,
                        (None, Some(_)) => false,
                    };
                    let is_prefix = opt_ok && got_rr.len() <= want_rr.len() && got_rr.iter().zip(want_rr.iter()).all(|(a, b)| a == b);
                    let want = all_records(&fm);
                    let got = all_records(&om);
                    if om.questions != fm.questions || om.id != fm.id {
                        leg.violation("C04/question-or-id-changed", format!("limit {}", limit), replay);
                    } else if !is_prefix {
                        leg.violation("C04/omitted-records-not-a-suffix", format!("limit {}: {} of {} records kept but not a prefix", limit, got.len(), want.len()), replay);
                    } else if got.len() < want.len() && !om.tc() {
                        leg.violation("C04/records-omitted-without-tc", format!("limit {}: {} of {} records, TC clear", limit, got.len(), want.len()), replay);
                    } else if got.len() == want.len() && om.tc() && !fm.tc() {
                        leg.violation("C04/tc-without-omission", format!("limit {}", limit), replay);
                    } else if fits && got.len() < want.len() {
                        leg.violation("C04/truncated-although-it-fits", format!("limit {} full {}", limit, full.len()), replay);
                    } else if got.len() < want.len() {
                        leg.count("truncations_checked", 1);
                        // maximality is not demanded by the property; count how often one more record would have fitted
                    }
                }
            }
        }
    }
}

pub fn run_c04(seed: u64, thorough: bool, shards: u64) -> Leg {
    let mut total = Leg::new(
        "c04-size-inproc",
        "C04",
        "generated replies (0..400 records, total size 12..65535) through the listener's prepare_to_send/serialise_with_size for limits {0,256,512,513,1232,4096,65535, full-1, full, full+1, random}: output parses with the reference decoder (counts = contents, no trailing octets), length <= max(512, limit), kept records are a prefix, TC iff records omitted; plus the limit the listener derives from a query (every advertised size x DO flag x other EDNS flags) within [512, max(512, advertised)]; distinct = (limit class, full-size class, fits/truncate)",
    );
    total.floor = 2_000;
    let n: u64 = if thorough { 600_000 } else { 6_000 };
    let mut handles = Vec::new();
    for shard in 0..shards {
        let mut leg = total.child();
        handles.push(std::thread::spawn(move || {
            let mut r = Rng::derive(seed, shard, 0xC04);
            // the limit the UDP listener applies is the one the parser takes from the query: for every advertised size, with and
            // without the DO flag / other EDNS flags / options / an unknown EDNS version, it must lie within [512, max(512, advertised)]
            for _ in 0..(n / shards / 4).max(200) {
                let names = rn::gen_name_pool(&mut r, 3, false);
                let qn = r.pick(&names).clone();
                let mut q = rn::gen_query(&mut r, qn, false);
                let adv: Option<u16> = match r.below(8) {
                    0 => None,
                    1 => Some(*r.pick(&[0u16, 1, 255, 256, 511, 512, 513, 600, 1219, 1220, 1232, 1400, 4096, 65_535])),
                    2 => Some(r.u16()),
                    _ => q.opt.as_ref().map(|o| o.udp_size),
                };
                match (adv, q.opt.as_mut()) {
                    (None, _) => q.opt = None,
                    (Some(a), Some(o)) => o.udp_size = a,
                    (Some(a), None) => q.opt = Some(rn::Opt { udp_size: a, flags: if r.bool() { 0x8000 } else { 0 }, ..Default::default() }),
                }
                if let Some(o) = q.opt.as_mut() {
                    if r.chance(1, 6) {
                        o.flags = r.u16();
                    }
                }
                let qw = rn::encode(&q, rn::Compress::None);
                leg.eval();
                let allowed = q.opt.as_ref().map(|o| o.udp_size.max(512)).unwrap_or(512);
                match guard::guard(|| ev::parse(&qw).map(|p| p.bufsize)) {
                    Ok(Ok(b)) => {
                        leg.class(format!("udp-limit-from-query|adv{}|do{}", match q.opt.as_ref().map(|o| o.udp_size) { None => "none", Some(0..=511) => "<512", Some(512) => "512", Some(513..=1232) => "<=1232", Some(_) => "big" }, q.opt.as_ref().map(|o| o.flags & 0x8000 != 0).unwrap_or(false)));
                        if b < 512 || b > allowed {
                            leg.violation(
                                "C04/udp-limit-taken-from-the-query-outside-512-to-advertised",
                                format!("advertised {:?} (EDNS flags {:#06x}): the listener will limit its UDP response to {} octets, allowed is 512..={}", q.opt.as_ref().map(|o| o.udp_size), q.opt.as_ref().map(|o| o.flags).unwrap_or(0), b, allowed),
                                json!({"engine": "c04", "kind": "limit-from-query", "query_hex": hex(&qw)}),
                            );
                        }
                    }
                    Ok(Err(_)) => leg.count("limit_from_query_rejected_by_parser", 1),
                    Err(p) => leg.violation(format!("C04/panic/{}/{}", file_of(&p), p.class()), format!("{} at {}", p.message, p.location), json!({"engine": "c04", "kind": "limit-from-query", "query_hex": hex(&qw)})),
                }
            }
            for i in 0..n / shards {
                let m = gen_structured(&mut r, false);
                let wire = rn::encode(&m, rn::Compress::None);
                if wire.len() > 65_535 {
                    continue;
                }
                if leg.wants_sample() && i % 5 == 0 {
                    leg.sample(json!({"records": m.answer.len() + m.authority.len() + m.additional.len(), "octets": wire.len()}));
                }
                let full_len = guard::guard(|| ev::parse(&wire).map(|m| m.serialise().len())).ok().and_then(|x| x.ok()).unwrap_or(600);
                let mut limits = vec![0usize, 256, 512, 513, 1232, 4096, 65_535, full_len.saturating_sub(1), full_len, full_len + 1];
                limits.push(r.range(512, 65_535) as usize);
                limits.push(r.range(512, (full_len as u64 + 10).max(513)) as usize);
                for l in limits {
                    c04_case(&mut leg, &wire, l);
                }
            }
            leg
        }));
    }
    for h in handles {
        match h.join() {
            Ok(l) => total.merge(l),
            Err(_) => total.inconclusive("shard thread died"),
        }
    }
    total
}

pub fn replay_c04(v: &serde_json::Value) -> Leg {
    let mut leg = Leg::new("c04-replay", "C04", "replay of one recorded case");
    let b = crate::report::unhex(v["wire_hex"].as_str().unwrap_or(""));
    c04_case(&mut leg, &b, v["limit"].as_u64().unwrap_or(512) as usize);
    leg
}

// ------------------------------------------------------------------------------------------ C03

/// Compare what the client would see with what the upstream said.  `ttl_slack`: allowed
/// downward TTL ageing in seconds (0 in-process).
pub fn judge_relay(q: &rn::Msg, upstream: &rn::Msg, client: &rn::Msg, ttl_slack: u32) -> Option<(String, String)> {
    if client.id != q.id {
        return Some(("id-not-the-clients".into(), format!("query id {:#x}, response id {:#x}", q.id, client.id)));
    }
    if !client.qr() {
        return Some(("qr-clear".into(), "response bit not set".into()));
    }
    if client.questions != q.questions {
        return Some(("question-differs".into(), format!("{:?} != {:?}", q.questions, client.questions)));
    }
    if client.rcode() != upstream.rcode() {
        return Some(("rcode-differs".into(), format!("upstream rcode {}, relayed {}", upstream.rcode(), client.rcode())));
    }
    // TTL ageing: compare with TTLs normalised when within slack
    let mut c2 = client.clone();
    for (a, b) in [(&upstream.answer, &mut c2.answer), (&upstream.authority, &mut c2.authority), (&upstream.additional, &mut c2.additional)] {
        for (x, y) in a.iter().zip(b.iter_mut()) {
            if y.ttl <= x.ttl && x.ttl - y.ttl <= ttl_slack {
                y.ttl = x.ttl;
            }
        }
    }
    compare_sections(upstream, &c2)
}

fn c03_case(leg: &mut Leg, rt: &tokio::runtime::Runtime, q: &rn::Msg, up: &rn::Msg, mode: rn::Compress) {
    leg.eval();
    let qb = rn::encode(q, rn::Compress::None);
    let ub = rn::encode(up, mode);
    if ub.len() > 65_535 {
        return;
    }
    let replay = json!({"engine": "c03", "query_hex": hex(&qb), "upstream_hex": hex(&ub)});
    let res = guard::timed(&ub, || {
        let qp = ev::parse(&qb).map_err(|e| format!("query rejected: {}", e))?;
        let outr = ev::parse(&ub).map_err(|e| format!("upstream reply rejected: {}", e))?;
        let msg = erbium::dns::DnsMessage {
            in_size: qb.len(),
            in_query: qp,
            local_ip: std::net::IpAddr::V4(Ipv4Addr::new(192, 0, 2, 53)),
            remote_addr: Ipv4Addr::new(192, 0, 2, 7).with_port(40_000),
            protocol: erbium::dns::Protocol::Tcp,
        };
        let rep = rt.block_on(ev::create_in_reply(&msg, &outr));
        Ok::<_, String>(rep.serialise())
    });
    let nrec = up.answer.len() + up.authority.len() + up.additional.len();
    leg.class(format!("an{}|ns{}|ar{}|rcode{}|{:?}|qedns{}", up.answer.len().min(3), up.authority.len().min(3), up.additional.len().min(3), up.rcode().min(16), std::mem::discriminant(&mode), q.opt.is_some()));
    match res {
        Err(p) => {
            // crashes are C05/C14's subject; do not double count unless small
            if ub.len() < 16_000 {
                leg.violation(format!("C03/panic/{}/{}", file_of(&p), p.class()), format!("{} at {}", p.message, p.location), replay)
            } else {
                leg.count("large_reply_crash_skipped", 1);
            }
        }
        Ok(Err(e)) => leg.violation("C03/wellformed-message-rejected", format!("{} ({} records)", e, nrec), replay),
        Ok(Ok(out)) => match rn::decode(&out, false) {
            Err(e) => {
                if out.len() >= 16_384 {
                    leg.count("large_reply_encoding_skipped", 1);
                } else {
                    leg.violation("C03/relayed-reply-malformed", e, replay)
                }
            }
            Ok((cm, _)) => {
                if let Some((class, detail)) = judge_relay(q, up, &cm, 0) {
                    leg.violation(format!("C03/{}", class), detail, replay);
                }
            }
        },
    }
}

pub fn run_c03(seed: u64, thorough: bool, shards: u64) -> Leg {
    let mut total = Leg::new(
        "c03-reply-construction-inproc",
        "C03",
        "generated (query, upstream reply) pairs -- every record layout with embedded names, classes IN/CH/other, rcodes 0..15 and extended, 0..40 records per reply over the three sections, three upstream compression styles -- through the decoder, the listener's reply builder and the encoder; the client-visible bytes are decoded by the reference decoder and compared section-wise with what the upstream sent; distinct = (section shape, rcode, compression style, query has EDNS)",
    );
    total.floor = 1_000;
    let n: u64 = if thorough { 1_000_000 } else { 16_000 };
    let mut handles = Vec::new();
    for shard in 0..shards {
        let mut leg = total.child();
        handles.push(std::thread::spawn(move || {
            let rt = tokio::runtime::Builder::new_current_thread().enable_all().build().expect("runtime");
            let mut r = Rng::derive(seed, shard, 0xC03);
            for i in 0..n / shards {
                let names = rn::gen_name_pool(&mut r, 5, false);
                let mut qname = r.pick(&names).clone();
                if r.chance(1, 3) {
                    // mixed case must be preserved byte-exactly
                    for l in qname.iter_mut() {
                        for c in l.iter_mut() {
                            if r.bool() {
                                *c = c.to_ascii_uppercase();
                            }
                        }
                    }
                }
                let q = rn::gen_query(&mut r, qname, true);
                let nrec = match r.below(6) {
                    0 => 0,
                    1 => 1,
                    _ => r.range(1, 40) as usize,
                };
                let hostile = r.chance(1, 5);
                let up = rn::gen_reply(&mut r, &q, nrec, 200, hostile);
                let mode = match r.below(3) {
                    0 => rn::Compress::None,
                    1 => rn::Compress::Full,
                    _ => rn::Compress::Random(r.next()),
                };
                if leg.wants_sample() && i % 3 == 0 {
                    leg.sample(json!({"query": rn::name_to_string(&q.questions[0].name), "qtype": q.questions[0].qtype, "upstream_rcode": up.rcode(), "answer": up.answer.iter().take(2).map(rn::rr_brief).collect::<Vec<_>>(), "authority": up.authority.len(), "additional": up.additional.len()}));
                }
                c03_case(&mut leg, &rt, &q, &up, mode);
            }
            leg
        }));
    }
    for h in handles {
        match h.join() {
            Ok(l) => total.merge(l),
            Err(_) => total.inconclusive("shard thread died"),
        }
    }
    total
}

pub fn replay_c03(v: &serde_json::Value) -> Leg {
    let mut leg = Leg::new("c03-replay", "C03", "replay of one recorded case");
    let qb = crate::report::unhex(v["query_hex"].as_str().unwrap_or(""));
    let ub = crate::report::unhex(v["upstream_hex"].as_str().unwrap_or(""));
    let rt = tokio::runtime::Builder::new_current_thread().enable_all().build().expect("runtime");
    match (rn::decode(&qb, false), rn::decode(&ub, false)) {
        (Ok((q, _)), Ok((u, _))) => c03_case(&mut leg, &rt, &q, &u, rn::Compress::None),
        _ => leg.inconclusive("replay file does not decode"),
    }
    leg
}
