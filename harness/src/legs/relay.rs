//! Case generation and offline judgement for the end-to-end DNS relay legs (C03 fidelity, C04
//! size limits).  The Python rig moves bytes; every protocol-level verdict is taken here with the
//! reference codec.

use crate::legs::dnswire::{judge_relay, size_class};
use crate::refcodec::dns as rn;
use crate::report::{Leg, hex, unhex};
use crate::rng::Rng;
use serde_json::{Value, json};

/// Write cases as JSON lines.
pub fn gen_cases(prop: &str, seed: u64, n: u64, out: &str) {
    let mut r = Rng::derive(seed, 0xE2E, if prop == "C04" { 4 } else { 3 });
    let mut lines = Vec::new();
    let mut silent_repeats = 0u32;
    for case in 0..n {
        let names = rn::gen_name_pool(&mut r, 4, false);
        // unique query name: the pairing of query, upstream reply and response is unambiguous
        let mut qname: rn::Name = vec![format!("k{}", case).into_bytes()];
        let tail = r.pick(&names).clone();
        for l in tail.iter().take(3) {
            qname.push(l.clone());
        }
        qname.push(b"relay".to_vec());
        qname.push(b"test".to_vec());
        if r.chance(1, 3) {
            for l in qname.iter_mut().skip(1) {
                for c in l.iter_mut() {
                    if r.bool() {
                        *c = c.to_ascii_uppercase();
                    }
                }
            }
        }
        let mut q = rn::gen_query(&mut r, qname, false);
        q.questions[0].qclass = if prop == "C03" && r.chance(1, 12) { 3 } else { 1 };
        let transport = if r.chance(1, 3) { "tcp" } else { "udp" };
        let (nrec, max_opaque) = if prop == "C04" {
            match r.below(8) {
                0 => (0, 10),
                1..=3 => (r.range(1, 12) as usize, 120),
                4..=5 => (r.range(10, 60) as usize, 300),
                6 => (r.range(40, 200) as usize, 600),
                _ => (r.range(100, 600) as usize, 300),
            }
        } else {
            (
                match r.below(6) {
                    0 => 0,
                    1 => 1,
                    _ => r.range(1, 12) as usize,
                },
                60,
            )
        };
        if prop == "C04" {
            // advertised sizes of interest
            let adv = *r.pick(&[None, Some(0u16), Some(256), Some(512), Some(513), Some(1232), Some(4096), Some(65535)]);
            // (with and without the DO flag: what a client may be sent depends on the size it advertised, nothing else)
            q.opt = adv.map(|s| rn::Opt { udp_size: s, flags: if r.bool() { 0x8000 } else { 0 }, ..Default::default() });
        }
        let hostile = r.chance(1, 6);
        let mut up = rn::gen_reply(&mut r, &q, nrec, max_opaque, hostile);
        if prop == "C03" {
            // keep the reply under the client's limit: truncation is C04's subject
            let limit = if transport == "tcp" { 60_000 } else { q.opt.as_ref().map(|o| o.udp_size.max(512) as usize).unwrap_or(512) };
            while rn::encode(&up, rn::Compress::None).len() + 120 > limit {
                if up.additional.pop().is_none() && up.authority.pop().is_none() && up.answer.pop().is_none() {
                    break;
                }
            }
        }
        // a reply with any TTL of 0 is not cached at all; with many random records that is nearly every reply, so in
        // half of the cases every TTL is lifted to at least 30 s and the cache takes part in what follows
        if r.bool() {
            for rr in up.answer.iter_mut().chain(up.authority.iter_mut()).chain(up.additional.iter_mut()) {
                if rr.ttl < 30 {
                    rr.ttl = 30 + (rr.ttl % 7) * 100;
                }
            }
        }
        let repeat = prop == "C03" && r.chance(1, 5) && q.questions[0].qclass == 1;
        let mut repeat_gap = 1.3;
        let mut repeat_upstream_silent = false;
        if repeat && r.chance(2, 3) && !up.answer.is_empty() && (!up.authority.is_empty() || !up.additional.is_empty()) {
            repeat_gap = 2.3; // that record is then more than a whole second past its end
            // ... and for a few of them (each takes as long as the server keeps trying) the upstream has fallen silent by then:
            // neither an upstream reply nor a live cache entry backs any record in the second response
            if silent_repeats < 3 && transport == "udp" && r.chance(1, 2) {
                repeat_upstream_silent = true;
                silent_repeats += 1;
            }
            // long-lived answers next to one authority/additional record that lives for a single second: the repeat (2.3 s
            // later) must not be served from an entry in which that record has run out
            for rr in up.answer.iter_mut() {
                rr.ttl = rr.ttl.max(60);
            }
            if let Some(rr) = up.authority.last_mut().or(up.additional.last_mut()) {
                rr.ttl = 1;
            }
        }
        let mode = match r.below(3) {
            0 => rn::Compress::None,
            1 => rn::Compress::Full,
            _ => rn::Compress::Random(r.next()),
        };
        let ub = rn::encode(&up, mode);
        if ub.len() > 65_000 {
            continue;
        }
        let qb = rn::encode(&q, rn::Compress::None);
        // what the upstream sends over UDP when the full reply exceeds erbium's advertised 4096: TC set and either nothing
        // or (as most servers do) the whole records that still fit
        let mut upstream_udp: Option<Vec<u8>> = None;
        if ub.len() > 4000 && r.bool() {
            let mut part = up.clone();
            part.flags |= 0x0200;
            while rn::encode(&part, rn::Compress::None).len() > 4000 {
                if part.additional.pop().is_none() && part.authority.pop().is_none() && part.answer.pop().is_none() {
                    break;
                }
            }
            upstream_udp = Some(rn::encode(&part, rn::Compress::None));
        }
        // C04: the same question again over the other transport while the first answer may still be cached
        let second = if prop == "C04" && r.chance(1, 3) && q.questions[0].qclass == 1 { Some(if transport == "udp" { "tcp" } else { "udp" }) } else { None };
        lines.push(
            json!({
                "case": case,
                "qname": String::from_utf8_lossy(&q.questions[0].name.iter().map(|l| String::from_utf8_lossy(l).to_string()).collect::<Vec<_>>().join(".").into_bytes()).to_string(),
                "query_hex": hex(&qb),
                "upstream_hex": hex(&ub),
                "transport": transport,
                "advertised": q.opt.as_ref().map(|o| o.udp_size),
                "repeat_after_s": if repeat { Some(repeat_gap) } else if second.is_some() { Some(0.3) } else { None },
                "repeat_transport": second,
                "repeat_upstream_silent": repeat_upstream_silent,
                "upstream_udp_hex": upstream_udp.as_ref().map(|b| hex(b)),
                // an upstream that truncates over UDP and then hangs up on the TCP retry: no full answer can be had
                "upstream_tcp": if upstream_udp.is_some() && second == Some("tcp") && r.chance(1, 2) { Some("close") } else { None },
            })
            .to_string(),
        );
    }
    std::fs::write(out, lines.join("\n") + "\n").expect("write cases");
    println!("{} cases written", lines.len());
}

fn all_records(m: &rn::Msg) -> Vec<rn::Rr> {
    m.answer.iter().chain(m.authority.iter()).chain(m.additional.iter()).cloned().collect()
}

/// events: JSON lines {case, transport, response_hex | null, error, elapsed_s, repeat: bool}
pub fn judge(prop: &str, cases_path: &str, events_path: &str) -> Leg {
    let rule = if prop == "C03" {
        "end to end through the real erbium-dns: unique query names, every record layout with embedded names, classes IN/CH, EDNS on/off, DO/CD, rcodes 0..15 and extended, 0..12 records, compressed and uncompressed upstream encodings, UDP and TCP clients, upstream TC->TCP path, repeated queries served from the cache (TTL ageing); the bytes the client received are decoded by the reference decoder and compared section-wise with what the scripted upstream sent; distinct = (transport, section shape, rcode, repeated)"
    } else {
        "end to end through the real erbium-dns: advertised sizes {none,0,256,512,513,1232,4096,65535} x upstream replies of 12..65000 octets (large ones via the upstream TC->TCP path) x UDP and TCP clients, a third of the questions asked a second time over the other transport 0.3 s later (cache in between), oversized upstream replies truncated by the upstream either to nothing or to the whole records that fit; response parses with counts = contents, UDP length <= max(512, advertised), kept records are a prefix, TC iff records omitted, TCP never truncated when the reply fits 65535; distinct = (transport, advertised, upstream-size class, truncated)"
    };
    let mut leg = Leg::new(&format!("{}-relay-e2e-judge", prop.to_lowercase()), prop, rule);
    leg.floor = 50;
    let cases: std::collections::HashMap<u64, Value> = std::fs::read_to_string(cases_path)
        .unwrap_or_default()
        .lines()
        .filter_map(|l| serde_json::from_str::<Value>(l).ok())
        .map(|v| (v["case"].as_u64().unwrap_or(0), v))
        .collect();
    let events = std::fs::read_to_string(events_path).unwrap_or_default();
    for line in events.lines() {
        let ev: Value = match serde_json::from_str(line) {
            Ok(v) => v,
            Err(_) => continue,
        };
        if let Some(n) = ev["twin_pairs"].as_u64() {
            leg.evals(2 * n);
            let bad = ev["twin_bad"].as_array().cloned().unwrap_or_default();
            leg.class(format!("concurrent-do-twins|{}", if bad.is_empty() { "own-answers" } else { "mixed-up" }));
            leg.count("concurrent_do_twin_pairs", n);
            if !bad.is_empty() {
                leg.violation(
                    "C03/answer-section-differs/concurrent-twin-with-other-do-bit",
                    format!("{} of {} clients of concurrent same-question pairs (DO set / DO clear, 50 ms apart, upstream 0.3 s) did not get the upstream's answer to their own query (expected record types [1] without DO, [1, 46] with DO): {}", bad.len(), 2 * n, serde_json::Value::Array(bad.clone())),
                    json!({"engine": "c03-e2e", "twin_bad": bad}),
                );
            }
            continue;
        }
        if let Some(qhex) = ev["malformed_query_hex"].as_str() {
            // a datagram the server cannot parse: silence is fine, but whatever it does send must itself be a well-formed DNS
            // message within the 512 octets of a client that advertised nothing
            leg.eval();
            leg.class(format!("malformed-query|{}", if ev["response_hex"].is_string() { "answered" } else { "silence" }));
            if let Some(h) = ev["response_hex"].as_str() {
                let resp = unhex(h);
                let replay = json!({"engine": "c04-e2e", "malformed_query_hex": qhex, "response_hex": h});
                if resp.len() > 512 {
                    leg.violation("C04/response-exceeds-limit/udp", format!("{} octets in answer to an unparseable query of {} octets that advertised no EDNS size", resp.len(), qhex.len() / 2), replay);
                } else if let Err(e) = rn::decode(&resp, true) {
                    leg.violation("C04/response-malformed/udp", format!("answer to an unparseable query: {} ({} octets)", e, resp.len()), replay);
                }
                leg.count("malformed_queries_answered", 1);
            }
            continue;
        }
        let case = match cases.get(&ev["case"].as_u64().unwrap_or(u64::MAX)) {
            Some(c) => c,
            None => continue,
        };
        leg.eval();
        let qb = unhex(case["query_hex"].as_str().unwrap_or(""));
        let ub = unhex(case["upstream_hex"].as_str().unwrap_or(""));
        let transport = ev["transport"].as_str().unwrap_or("udp");
        let repeat = ev["repeat"].as_bool().unwrap_or(false);
        let replay = json!({"engine": format!("{}-e2e", prop.to_lowercase()), "case": case, "event": ev});
        let (q, _) = rn::decode(&qb, false).expect("generated query decodes");
        let (up, _) = rn::decode(&ub, false).expect("generated upstream reply decodes");
        if repeat && case["repeat_upstream_silent"].as_bool() == Some(true) {
            // the entry made from the first reply has run out (one of its records lived for a second, this is 2.3 s later) and
            // the upstream says nothing: whatever the response is (a server failure, or none within the time the rig waits --
            // C07's subject), it cannot carry records
            leg.class(format!("{}|silent-upstream-after-expiry|{}", transport, if ev["response_hex"].is_null() { "no-response" } else { "response" }));
            if let Some(h) = ev["response_hex"].as_str() {
                match rn::decode(&unhex(h), true) {
                    Ok((cm, _)) => {
                        let n = all_records(&cm).len();
                        if n > 0 {
                            leg.violation(
                                format!("{}/records-relayed-that-neither-an-upstream-reply-nor-a-live-cache-entry-backs", prop),
                                format!("case {}: {} records (rcode {}) {} s after the first ask; the upstream answered once, with a record of TTL 1, and has been silent since", case["case"], n, cm.rcode(), ev["elapsed_s"]),
                                replay,
                            );
                        } else {
                            leg.count("silent_upstream_after_expiry_checked", 1);
                        }
                    }
                    Err(e) => leg.violation(format!("{}/response-malformed/{}", prop, transport), e, replay),
                }
            } else {
                leg.count("silent_upstream_after_expiry_no_response_in_70s", 1);
            }
            continue;
        }
        let resp = match ev["response_hex"].as_str() {
            Some(h) => unhex(h),
            None => {
                if transport == "udp" && (up.rcode() & 0xf) == 5 {
                    // a relayed REFUSED is rate limited like any other REFUSED (C16): silence is by design
                    leg.count("relayed_refused_rate_limited", 1);
                    continue;
                }
                leg.violation(
                    format!("{}/no-response/{}", prop, transport),
                    format!("case {} ({} records upstream, {} octets): {}", case["case"], all_records(&up).len(), ub.len(), ev["error"]),
                    replay,
                );
                continue;
            }
        };
        let adv = case["advertised"].as_u64();
        let limit = if transport == "tcp" { 65_535 } else { adv.map(|a| a.max(512) as usize).unwrap_or(512) };
        let (cm, _st) = match rn::decode(&resp, true) {
            Ok(x) => x,
            Err(e) => {
                leg.violation(format!("{}/response-malformed/{}", prop, transport), format!("{} ({} octets; upstream {} octets; limit {})", e, resp.len(), ub.len(), limit), replay);
                continue;
            }
        };
        let want = all_records(&up);
        let got = all_records(&cm);
        if prop == "C04" && (cm.rcode() & 0xf) == 2 && got.is_empty() {
            // a server failure (here: the shared upstream TCP connection was hung up on by the upstream while this query was
            // waiting on it) is well-formed, within every limit and claims nothing about truncation; whether a query may be
            // failed at all is C07's subject
            if resp.len() > limit {
                leg.violation(format!("C04/response-exceeds-limit/{}", transport), format!("{} octets sent, limit {} (advertised {:?})", resp.len(), limit, adv), replay);
            }
            leg.count("server_failure_responses", 1);
            continue;
        }
        if prop == "C04" && case["upstream_tcp"].as_str() == Some("close") {
            // the full answer is out of reach: a server failure is the honest response; what must not happen is a response
            // over TCP that claims truncation, or an incomplete one that does not say so
            leg.class(format!("{}|upstream-tcp-hangs-up|rcode{}|tc{}", transport, cm.rcode() & 0xf, cm.tc()));
            leg.count("upstream_tcp_hangs_up_cases", 1);
            if transport == "tcp" && cm.tc() {
                leg.violation("C04/tcp-response-truncated-although-it-fits", format!("TC set on a response over TCP ({} of {} records; the upstream truncated over UDP and hung up on TCP)", got.len(), want.len()), replay);
            } else if (cm.rcode() & 0xf) == 0 && got.len() < want.len() && !cm.tc() {
                leg.violation(format!("C04/records-omitted-without-tc/{}", transport), format!("{} of {} records, TC clear (upstream hung up on TCP)", got.len(), want.len()), replay);
            }
            continue;
        }
        // The server's own OPT record is not one of the upstream's records: a reply may carry none at all (a client that sent
        // no EDNS), and it may be the first thing truncation removes (then TC is set although every record is there).
        let records_missing = got.len() < want.len();
        let truncated = records_missing || (cm.opt.is_none() && cm.tc());
        if prop == "C04" {
            leg.class(format!("{}|adv{:?}|up{}|trunc{}", transport, adv, size_class(ub.len()), truncated));
            if resp.len() > limit {
                leg.violation(format!("C04/response-exceeds-limit/{}", transport), format!("{} octets sent, limit {} (advertised {:?})", resp.len(), limit, adv), replay);
                continue;
            }
            let is_prefix = got.len() <= want.len() && got.iter().zip(want.iter()).all(|(a, b)| {
                // TTLs are C03's and C06's subject (a cached reply is legitimately aged); here only which records were kept
                let mut a2 = a.clone();
                a2.ttl = b.ttl;
                a2 == *b
            });
            if !is_prefix {
                leg.violation(format!("C04/kept-records-not-a-prefix/{}", transport), format!("{} of {} records", got.len(), want.len()), replay);
            } else if truncated && !cm.tc() {
                leg.violation(format!("C04/records-omitted-without-tc/{}", transport), format!("{} of {} records, TC clear", got.len(), want.len()), replay);
            } else if !truncated && cm.tc() {
                leg.violation(format!("C04/tc-without-omission/{}", transport), format!("{} records", got.len()), replay);
            } else if got.len() < want.len() && transport == "tcp" {
                leg.violation("C04/tcp-response-truncated-although-it-fits", format!("{} of {} records over TCP (upstream reply {} octets, client advertised {:?})", got.len(), want.len(), ub.len(), adv), replay);
            } else if truncated {
                leg.count("udp_truncations_checked", 1);
            }
        } else {
            leg.class(format!("{}|an{}|ns{}|ar{}|rcode{}|repeat{}", transport, up.answer.len().min(3), up.authority.len().min(3), up.additional.len().min(3), up.rcode().min(16), repeat));
            let slack = if repeat { ev["elapsed_s"].as_f64().unwrap_or(0.0).ceil() as u32 + 1 } else { 1 };
            if let Some((class, detail)) = judge_relay(&q, &up, &cm, slack) {
                leg.violation(format!("C03/{}/{}", class, if repeat { "from-cache" } else { transport }), detail, replay);
            } else if repeat {
                leg.count("repeated_queries_checked", 1);
            }
        }
        if leg.wants_sample() {
            leg.sample(json!({"case": case["case"], "qname": case["qname"], "transport": transport, "upstream_octets": ub.len(), "response_octets": resp.len(), "records": want.len(), "kept": got.len()}));
        }
    }
    leg
}
