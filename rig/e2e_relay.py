#!/usr/bin/python3
"""C03 / C04 end-to-end legs: generated queries and upstream replies through the real erbium-dns;
what the client received is judged offline by `vh judge-relay` with the reference codec."""
import json
import os
import socket
import struct
import sys
import threading
import time
from concurrent.futures import ThreadPoolExecutor

sys.path.insert(0, os.path.dirname(os.path.abspath(__file__)))
import base  # noqa: E402
import dnslib  # noqa: E402

CONF = """---
dns-listeners: ['127.0.0.53:53', '[::1]:53']
acls:
  - match-subnets: ['127.0.0.0/8', '::1/128']
    apply-access: ['dns-recursion']
dns-routes:
  - domain-suffixes: ['']
    type: forward
    dns-servers: ['127.0.1.1']
"""


def main():
    base.enter_namespaces()
    args = base.parse_args()
    prop = args.get("prop", "C03")
    thorough = args["tier"] == "thorough"
    n = int(args.get("n", 0)) or ((40000 if prop == "C03" else 12000) if thorough else (400 if prop == "C03" else 320))
    leg = base.Leg("%s-relay-e2e" % prop.lower(), prop, "see judge", floor=50)
    d = base.scratch_dir("relay")
    procs, ups = [], []
    try:
        base.setup_loopback()
        cases_path = os.path.join(d, "cases.jsonl")
        rc, out = base.run_vh(["gen-relay-cases", "--prop", prop, "--seed", str(args["seed"]), "--n", str(n), "--out", cases_path])
        if rc != 0:
            raise base.Inconclusive("case generation failed: %s" % out[-300:])
        cases = [json.loads(l) for l in open(cases_path) if l.strip()]
        by_name = {c["qname"].lower(): c for c in cases}

        def script(qn, proto, nth, q):
            if qn.startswith("twin"):
                # answers that depend on the DO bit of the query the upstream actually received, 0.3 s late
                pq = dnslib.parse(q)
                do = bool(pq.opt and (pq.opt["ttl"] & 0x8000))
                ans = [(qn, 1, 0, bytes([10, 3, 3, 3]))]
                if do:
                    ans.append((qn, 46, 0, struct.pack(">HBBIIIH", 1, 8, 3, 0, 2000000000, 1000000000, 1234) + dnslib.enc_name("relay.test") + bytes(32)))
                return [("reply", dnslib.build_reply(q, answers=ans), 0.3)]
            c = by_name.get(qn)
            if c is None:
                return [("reply", dnslib.build_reply(q, rcode=3), 0)]
            up = bytes.fromhex(c["upstream_hex"])
            if c.get("repeat_upstream_silent"):
                # answers the first ask, then falls silent: by the time of the repeat the cached entry has run out (one record
                # lived for a second), so nothing at all backs an answer any more
                now = time.monotonic()
                t1 = c.setdefault("_t_first_reply", now)
                if now - t1 > 1.2:
                    return [("drop",)]
            if proto == "tcp" and c.get("upstream_tcp") == "close":
                return [("close",)]
            if proto == "udp" and len(up) > 4000:
                # what a real server does with erbium's advertised 4096: truncate (to nothing, or to the whole records
                # that fit), client retries over TCP
                if c.get("upstream_udp_hex"):
                    part = bytearray(bytes.fromhex(c["upstream_udp_hex"]))
                    part[0:2] = q[0:2]
                    return [("reply", bytes(part), 0)]
                return [("reply", dnslib.build_reply(q, tc=True), 0)]
            return [("reply", up, 0)]

        ups.append(dnslib.Upstream("127.0.1.1", script, name="u1"))
        conf_path = os.path.join(d, "erbium.conf")
        open(conf_path, "w").write(CONF)
        p = base.Proc("erbium-dns", [os.path.join(base.BIN, "erbium-dns"), conf_path], d, rust_log="warn")
        procs.append(p)
        if not dnslib.wait_port("127.0.0.53", 53):
            raise base.Inconclusive("erbium-dns did not start: %s" % p.text()[-400:])
        events = []
        elock = threading.Lock()

        def ask(c, repeat=False, t_first=None, transport=None):
            q = bytes.fromhex(c["query_hex"])
            transport = transport or c["transport"]
            # every fourth case comes from a real IPv6 client (the limits are the same whatever the address family)
            v6 = c["case"] % 4 == 3
            target = ("::1", 53) if v6 else ("127.0.0.53", 53)
            fam = socket.AF_INET6 if v6 else socket.AF_INET
            # (a repeat towards an upstream that has fallen silent is answered only when the server gives up on it)
            wait = 70.0 if repeat and c.get("repeat_upstream_silent") else 20.0
            if transport == "tcp":
                r, err = dnslib.tcp_query(target, q, timeout=wait, family=fam)
            else:
                rs = dnslib.udp_query(target, q, timeout=wait, family=fam)
                r, err = (rs[0][0], None) if rs else (None, "no datagram within %d s" % wait)
            with elock:
                events.append({"case": c["case"], "transport": transport, "response_hex": r.hex() if r is not None else None,
                               "error": err, "repeat": repeat, "elapsed_s": (time.monotonic() - t_first) if t_first else 0.0})

        def one(c):
            t0 = time.monotonic()
            ask(c)
            if c.get("repeat_after_s"):
                time.sleep(c["repeat_after_s"])
                ask(c, repeat=True, t_first=t0, transport=c.get("repeat_transport"))

        with ThreadPoolExecutor(max_workers=32) as ex:
            list(ex.map(one, cases))
        if prop == "C03":
            # two clients ask the same question at (nearly) the same time, one with DO set, one without; the upstream's answer
            # differs (an RRSIG more for DO): each client must get the upstream's reply to ITS query
            twin_bad = []

            def twin_ask(name, do, delay, out):
                time.sleep(delay)
                rs = dnslib.udp_query(("127.0.0.53", 53), dnslib.build_query(rnd_twin.randrange(65536), name, edns=1232, do=do), timeout=8.0)
                out[do] = dnslib.parse(rs[0][0]) if rs else None

            import random as _random
            rnd_twin = _random.Random(args["seed"])
            for k in range(8):
                name = "twin%d.relay.test" % k
                out = {}
                first_do = bool(k % 2)
                ts = [threading.Thread(target=twin_ask, args=(name, first_do, 0.0, out)), threading.Thread(target=twin_ask, args=(name, not first_do, 0.05, out))]
                for t in ts:
                    t.start()
                for t in ts:
                    t.join(timeout=15)
                for do in (False, True):
                    pr = out.get(do)
                    types = sorted(t for (_, t, _, _) in pr.answers) if pr else None
                    want = [1, 46] if do else [1]
                    if types != want:
                        twin_bad.append((name, do, types))
            events.append({"case": -2, "twin_pairs": 8, "twin_bad": twin_bad})
        if prop == "C04":
            # datagrams of 12+ octets with QR=0 that no parser can accept
            import random as _random
            hdr = lambda qd, an=0: struct.pack(">HHHHHH", _random.randrange(65536), 0x0100, qd, an, 0, 0)  # noqa: E731
            bad = [hdr(1) + b"\x05abc",                                  # name runs past the end
                   hdr(1) + b"\x03www\x07example",                       # no terminator, no type/class
                   hdr(1) + b"\x40abc\x00\x00\x01\x00\x01",             # reserved label type
                   hdr(1) + b"\xc0\x0c\x00\x01\x00\x01",                # pointer to itself
                   hdr(65535, 65535) + bytes(688),                      # counts far beyond the 700 octets present
                   hdr(1) + b"\x03www\x00\x00\x01\x00\x01" + bytes([0, 0, 41, 4, 0, 0, 0, 0, 0, 0, 9, 0, 10, 0, 20]),  # OPT whose option overruns
                   hdr(2) + b"\x01a\x00\x00\x01\x00\x01"]               # two questions announced, one present
            import socket as _s
            for b_ in bad:
                u = _s.socket(_s.AF_INET, _s.SOCK_DGRAM)
                u.settimeout(1.0)
                resp = None
                try:
                    u.sendto(b_, ("127.0.0.53", 53))
                    resp, _frm = u.recvfrom(65535)
                except OSError:
                    pass
                u.close()
                events.append({"case": -1, "malformed_query_hex": b_.hex(), "response_hex": resp.hex() if resp else None})
        ev_path = os.path.join(d, "events.jsonl")
        with open(ev_path, "w") as f:
            for e in events:
                f.write(json.dumps(e) + "\n")
        jout = os.path.join(d, "judge.json")
        if os.environ.get("RELAY_DEBUG_DIR"):
            import shutil
            shutil.copy(cases_path, os.environ["RELAY_DEBUG_DIR"])
            shutil.copy(ev_path, os.environ["RELAY_DEBUG_DIR"])
            json.dump([{k: (v.hex() if isinstance(v, bytes) else v) for k, v in e.items()} for e in ups[0].events], open(os.path.join(os.environ["RELAY_DEBUG_DIR"], "upstream.json"), "w"))
        rc, out = base.run_vh(["judge-relay", "--prop", prop, "--cases", cases_path, "--events", ev_path, "--seed", str(args["seed"]),
                               "--tier", args["tier"], "--out", jout], timeout=1800)
        try:
            rep = json.load(open(jout))
        except (OSError, ValueError):
            raise base.Inconclusive("judge produced no report: %s" % out[-400:])
        leg.rule = rep.get("rule", "")
        leg.merge_report(rep)
        # repeated queries must have been answered from the cache: the upstream saw each name once
        for c in cases:
            if c.get("repeat_after_s") and prop == "C03":
                nq = len([e for e in ups[0].events if e["kind"] == "query" and (e.get("qname") or "").lower() == c["qname"].lower() and e["proto"] == "udp"])
                leg.count("repeat_upstream_udp_transmissions", nq)
        leg.count("cases", len(cases))
        leg.count("upstream_events", len(ups[0].events))
        for line in p.panics():
            leg.violation("%s/handler-panic/%s" % (prop, base.panic_signature(line)), line.strip(), {"engine": "relay-e2e", "log_line": line})
        if not p.alive():
            leg.violation("%s/service-died" % prop, p.text()[-500:], {"engine": "relay-e2e"})
    except base.Inconclusive as e:
        leg.inconclusive(str(e))
    finally:
        for pr_ in procs:
            pr_.stop()
        for u in ups:
            u.stop()
        base.cleanup_dir(d)
    leg.write(args)


if __name__ == "__main__":
    main()
