#!/usr/bin/python3
"""C18 end-to-end leg (fault enumeration): the real erbium-dhcp is killed with SIGKILL at the N-th
invocation of every store-touching system call (strace fault injection) and at timer-chosen
instants during a stream of allocations; after each kill the lease file must open, pass
integrity_check, contain every lease whose reply a client had already received, contain no
half-written row, and the restarted server must give renewing clients their addresses back."""
import os
import random
import sqlite3
import sys
import time

sys.path.insert(0, os.path.dirname(os.path.abspath(__file__)))
import base  # noqa: E402
import dhcplib  # noqa: E402

DB = "/var/lib/erbium/leases.sqlite"
CONF = "---\ndhcp-policies:\n  - match-subnet: 10.77.0.0/24\n    apply-range: { start: 10.77.0.10, end: 10.77.0.200 }\n"
SYSCALLS = ["pwrite64", "fsync", "fdatasync", "unlink", "openat", "ftruncate", "fcntl"]


def inspect(leg, received, tag, replay):
    """received: {client_id_bytes: addr} for every reply a client had in hand before the kill."""
    if not os.path.exists(DB):
        if received:
            leg.violation("C18/store-missing-after-kill", "%d replies had been received" % len(received), replay)
        return None
    try:
        con = sqlite3.connect(DB, timeout=5)
        ic = con.execute("PRAGMA integrity_check").fetchall()
        try:
            rows = con.execute("SELECT address, clientid, start, expiry FROM leases").fetchall()
        except sqlite3.OperationalError as e:
            rows = None
            if received:
                leg.violation("C18/store-unreadable-after-kill", str(e), replay)
        con.close()
    except sqlite3.DatabaseError as e:
        leg.violation("C18/store-does-not-open-after-kill", str(e), replay)
        return None
    if ic != [("ok",)]:
        leg.violation("C18/integrity-check-fails-after-kill", str(ic)[:300], replay)
    if rows is None:
        return None
    by_addr = {}
    for (a, cid, s, e) in rows:
        bad = None
        try:
            import ipaddress
            ipaddress.IPv4Address(a)
        except Exception:  # noqa: BLE001
            bad = "address %r" % (a,)
        if cid is None:
            bad = "client id is NULL"
        if not isinstance(s, int) or not isinstance(e, int) or s > e:
            bad = "start/expiry %r/%r" % (s, e)
        if bad:
            leg.violation("C18/half-written-row-after-kill", "%s in row %r" % (bad, (a, cid, s, e)), replay)
        by_addr[a] = bytes(cid or b"")
    for cid, addr in received.items():
        if by_addr.get(addr) != cid:
            leg.violation("C18/acknowledged-lease-lost-after-kill", "%s: client %s had received %s but the store has %r" % (
                tag, cid.hex(), addr, by_addr.get(addr)), replay)
    return by_addr


def one_client(sb, i, xid, received):
    mac = bytes([2, 0x18, 0, 0, (i >> 8) & 0xFF, i & 0xFF])
    fr, off = dhcplib.exchange(sb.client, mac, 1, xid, options=[(55, bytes([1, 3, 6, 51]))], wait=1.2)
    if not off:
        return False
    received[mac] = off["yiaddr"]
    opts = [(50, bytes(int(x) for x in off["yiaddr"].split("."))), (54, bytes([10, 77, 0, 1])), (55, bytes([1, 3, 6, 51]))]
    fr, ack = dhcplib.exchange(sb.client, mac, 3, xid + 1, options=opts, wait=1.2)
    if not ack:
        return False
    received[mac] = ack["yiaddr"]
    return True


def reap():
    """Wait until UDP port 67 is free again in this namespace (the killed server's socket is gone)."""
    import socket
    for _ in range(60):
        s = socket.socket(socket.AF_INET, socket.SOCK_DGRAM)
        try:
            s.bind(("0.0.0.0", 67))
            s.close()
            return
        except OSError:
            s.close()
            time.sleep(0.05)


def server_opens_first(leg, sb, tag, replay):
    """The next process to open the store after a kill is the server itself, some minutes later (as
    after a power cut), not this rig's sqlite3: whatever the kill left next to the database (a hot
    rollback journal) is backdated and erbium-dhcp is started and stopped before anything is inspected."""
    j = DB + "-journal"
    if not os.path.exists(j):
        leg.count("server_first_no_journal_left", 1)
        return
    old = time.time() - 180
    os.utime(j, (old, old))
    leg.count("server_first_with_hot_journal_left", 1)
    reap()
    p = sb.start("erbium-dhcp", CONF)
    time.sleep(0.7)
    if not p.alive() and ("Pool Error" in p.text() or "atabase" in p.text()):
        leg.violation("C18/server-does-not-restart-on-the-store", "%s (server first, journal left by the kill): %s" % (tag, p.text()[-300:]), replay)
    p.stop()
    reap()


def renew_check(leg, sb, received, tag, replay):
    """Restart without faults: every client that had a reply in hand gets the same address again."""
    reap()
    p = sb.start("erbium-dhcp", CONF)
    time.sleep(0.7)
    if not p.alive():
        if "Pool Error" in p.text() or "atabase" in p.text():
            leg.violation("C18/server-does-not-restart-on-the-store", p.text()[-300:], replay)
        else:
            leg.inconclusive("restart failed for a reason unrelated to the store: %s" % p.text()[-200:])
        return
    xid = 60000
    for mac, addr in list(received.items())[:4]:
        xid += 2
        opts = [(50, bytes(int(x) for x in addr.split("."))), (55, bytes([1, 3, 6, 51]))]
        # a client retransmits an unanswered REQUEST; silence counts only when all three transmissions went unanswered
        for attempt in range(3):
            fr, ack = dhcplib.exchange(sb.client, mac, 3, xid, options=opts, wait=2.0 + 2.0 * attempt)
            if ack:
                break
            leg.count("renewal_retransmissions", 1)
        leg.eval()
        if not ack:
            leg.violation("C18/renewal-unanswered-after-restart", "%s: %s asking for %s" % (tag, mac.hex(), addr), replay)
        elif ack["yiaddr"] != addr:
            leg.violation("C18/different-address-after-restart", "%s: %s held %s, now given %s" % (tag, mac.hex(), addr, ack["yiaddr"]), replay)
        else:
            leg.count("renewals_confirmed_after_kill", 1)
    p.stop()
    reap()


def coordinator(args):
    """One worker per syscall (each in its own namespaces) plus one for the random kills."""
    import json
    import subprocess
    leg = base.Leg("c18-crash-points-e2e", "C18", "", floor=10)
    d = base.scratch_dir("c18-coord")
    jobs = []
    env = dict(os.environ)
    env.pop("VERIF_IN_NS", None)
    for w in SYSCALLS + ["random"]:
        out = os.path.join(d, "w-%s.json" % w)
        argv = [sys.executable, os.path.abspath(__file__), "--worker", w, "--seed", str(args["seed"]), "--tier", args["tier"], "--out", out]
        jobs.append((w, out, subprocess.Popen(argv, env=env, stdout=subprocess.PIPE, stderr=subprocess.STDOUT, text=True)))
    for (w, out, pr) in jobs:
        try:
            stdout, _ = pr.communicate(timeout=3000 if args["tier"] == "thorough" else 600)
        except subprocess.TimeoutExpired:
            pr.kill()
            leg.inconclusive("worker %s timed out" % w)
            continue
        try:
            rep = json.load(open(out))
        except (OSError, ValueError):
            leg.inconclusive("worker %s produced no report: %s" % (w, (stdout or "")[-300:]))
            continue
        leg.rule = rep.get("rule", leg.rule)
        leg.merge_report(rep)
    if leg.counters.get("kill_points_fired", 0) < 10:
        leg.inconclusive("only %d injected kills fired" % leg.counters.get("kill_points_fired", 0))
    base.cleanup_dir(d)
    leg.write(args)


def main():
    args = base.parse_args()
    if "worker" not in args:
        coordinator(args)
        return
    base.enter_namespaces()
    only = args["worker"]
    thorough = args["tier"] == "thorough"
    rnd = random.Random(args["seed"] * 48611 + 18)
    leg = base.Leg(
        "c18-crash-points-e2e", "C18",
        "real erbium-dhcp on a tmpfs lease file under `strace -f -e inject=<syscall>:signal=KILL:when=N` for syscall in {pwrite64, fsync, "
        "fdatasync, unlink, openat, ftruncate, fcntl} and N = 1.. until the kill no longer fires within an OFFER+ACK workload of three "
        "clients (covers schema creation, journal creation, page writes, syncs, journal deletion), plus SIGKILL at random instants "
        "during a 20-client stream; after every kill: file opens, PRAGMA integrity_check = ok, every lease whose reply a client had "
        "received is present with its client id, no row with NULL/garbled fields or start > expiry, and a restarted server gives the "
        "renewing clients the same addresses; distinct = (syscall, N) kill points that fired + random kills", floor=10)
    sb = None
    try:
        sb = dhcplib.ErbiumSandbox("c18")
        if base.sh("which strace", check=False).strip() == "":
            raise base.Inconclusive("strace not available")
        fired_total = 0
        for sc in [x for x in SYSCALLS if x == only]:
            n = 0
            misses = 0
            step = 1
            n_max = 150 if thorough else 24
            while n < n_max:
                n += step if n else 1
                for f in (DB, DB + "-journal"):
                    try:
                        os.unlink(f)
                    except OSError:
                        pass
                wrapper = ["strace", "-f", "-qq", "-o", "/dev/null", "-e", "trace=%s" % sc, "-e", "inject=%s:signal=KILL:when=%d" % (sc, n)]
                p = sb.start("erbium-dhcp", CONF, wrapper=wrapper)
                received = {}
                t0 = time.time()
                while time.time() - t0 < 1.2 and p.alive() and "Listening" not in p.text() and not os.path.exists(DB):
                    time.sleep(0.05)
                time.sleep(0.35)
                xid = 20000 + n * 10
                for i in range(3):
                    if not p.alive():
                        break
                    one_client(sb, n * 10 + i, xid + i * 2, received)
                time.sleep(0.1)
                died = not p.alive()
                p.stop()
                # strace re-raises the tracee's fatal signal: -9 means the injected SIGKILL fired
                fired = died and p.p.returncode in (-9, 137)
                reap()
                if died and not fired:
                    leg.count("server_exited_on_its_own", 1)
                    leg.inconclusive("erbium-dhcp exited without an injected kill at %s#%d: %s" % (sc, n, p.text()[-200:]))
                leg.eval()
                tag = "%s#%d" % (sc, n)
                replay = {"engine": "c18-e2e", "syscall": sc, "when": n, "received": {k.hex(): v for k, v in received.items()}}
                if not fired:
                    misses += 1
                    leg.count("kill_points_not_reached", 1)
                    if misses >= 2:
                        break
                    continue
                fired_total += 1
                leg.cls("kill|%s|%d" % (sc, n))
                leg.count("kills_fired_%s" % sc, 1)
                phase = "before-any-reply" if not received else "after-%d-replies" % len(received)
                leg.count("kills_%s" % phase, 1)
                if n % 2 == 0:
                    server_opens_first(leg, sb, tag, replay)
                inspect(leg, received, tag, replay)
                if received or n % 5 == 1:
                    renew_check(leg, sb, received, tag, replay)
        # ---- random instants during a stream
        for k in range((24 if thorough else 4) if only == "random" else 0):
            for f in (DB, DB + "-journal"):
                try:
                    os.unlink(f)
                except OSError:
                    pass
            p = sb.start("erbium-dhcp", CONF)
            time.sleep(0.7)
            received = {}
            kill_after = rnd.random() * 1.5
            t0 = time.monotonic()
            i = 0
            while time.monotonic() - t0 < kill_after and i < 20:
                one_client(sb, 5000 + k * 100 + i, 40000 + k * 100 + i * 2, received)
                i += 1
            # kill while (possibly) in the middle of the next exchange
            mac = bytes([2, 0x18, 9, 9, k, 99])
            sb.client.send(dhcplib.frame(mac, dhcplib.dhcp_payload(1, mac, 59000 + k, options=[(55, bytes([1, 3, 6]))])))
            time.sleep(rnd.random() * 0.004)
            p.kill9()
            reap()
            leg.eval()
            leg.cls("kill|random|%d" % k)
            leg.count("random_kills", 1)
            tag = "random#%d" % k
            replay = {"engine": "c18-e2e", "random_kill": k, "received": {a.hex(): v for a, v in received.items()}}
            if k % 2 == 0:
                server_opens_first(leg, sb, tag, replay)
            inspect(leg, received, tag, replay)
            renew_check(leg, sb, received, tag, replay)
        leg.count("kill_points_fired", fired_total)
        leg.sample({"syscalls": SYSCALLS, "kill_points_fired": fired_total})
    except base.Inconclusive as e:
        leg.inconclusive(str(e))
    finally:
        if sb:
            sb.close()
    leg.write(args)


if __name__ == "__main__":
    main()
