"""Raw-frame DHCP client for the end-to-end rig (AF_PACKET on the client end of a veth pair),
plus the full-erbium sandbox (server namespace with veth, tmpfs state directory, HTTP listeners)."""
import os
import select
import socket
import struct
import time

import base

MAGIC = b"\x63\x82\x53\x63"
ETH_P_ALL = 0x0003


def csum(data):
    if len(data) % 2:
        data += b"\0"
    s = sum(struct.unpack(">%dH" % (len(data) // 2), data))
    while s >> 16:
        s = (s & 0xFFFF) + (s >> 16)
    return (~s) & 0xFFFF


def dhcp_payload(mtype, chaddr, xid, options=(), flags=0, ciaddr="0.0.0.0", giaddr="0.0.0.0", hlen=None, raw_chaddr=None, secs=0):
    """options: list of (code, bytes).  mtype None = no option 53."""
    ch = raw_chaddr if raw_chaddr is not None else chaddr
    p = struct.pack(">BBBBIHH", 1, 1, len(chaddr) if hlen is None else hlen, 0, xid, secs, flags)
    p += socket.inet_aton(ciaddr) + b"\0" * 8 + socket.inet_aton(giaddr)
    p += (ch + b"\0" * 16)[:16] + b"\0" * 192 + MAGIC
    if mtype is not None:
        p += bytes([53, 1, mtype])
    for code, val in options:
        v = val
        if len(v) == 0:
            p += bytes([code, 0])
        while v:
            chunk, v = v[:255], v[255:]
            p += bytes([code, len(chunk)]) + chunk
    p += b"\xff"
    if len(p) < 300:
        p += b"\0" * (300 - len(p))
    return p


def frame(src_mac, payload, src_ip="0.0.0.0", dst_ip="255.255.255.255", dst_mac=b"\xff" * 6, sport=68, dport=67):
    udp_len = 8 + len(payload)
    udp = struct.pack(">HHHH", sport, dport, udp_len, 0) + payload
    pseudo = socket.inet_aton(src_ip) + socket.inet_aton(dst_ip) + struct.pack(">BBH", 0, 17, udp_len)
    c = csum(pseudo + udp) or 0xFFFF
    udp = udp[:6] + struct.pack(">H", c) + udp[8:]
    ip = struct.pack(">BBHHHBBH", 0x45, 0, 20 + udp_len, 0, 0, 64, 17, 0) + socket.inet_aton(src_ip) + socket.inet_aton(dst_ip)
    ip = ip[:10] + struct.pack(">H", csum(ip)) + ip[12:]
    return dst_mac + src_mac + b"\x08\x00" + ip + udp


def parse_dhcp(payload):
    """Lenient: returns dict with yiaddr, xid, flags, chaddr, options {code: bytes} or None."""
    if len(payload) < 240 or payload[236:240] != MAGIC:
        return None
    d = {"op": payload[0], "hlen": payload[2], "xid": struct.unpack(">I", payload[4:8])[0], "flags": struct.unpack(">H", payload[10:12])[0],
         "ciaddr": socket.inet_ntoa(payload[12:16]), "yiaddr": socket.inet_ntoa(payload[16:20]), "giaddr": socket.inet_ntoa(payload[24:28]),
         "chaddr": payload[28:28 + min(payload[2], 16)], "options": {}}
    o = 240
    while o < len(payload):
        c = payload[o]
        o += 1
        if c == 0:
            continue
        if c == 255:
            break
        if o >= len(payload):
            break
        l = payload[o]
        o += 1
        d["options"][c] = d["options"].get(c, b"") + payload[o:o + l]
        o += l
    return d


class RawClient:
    """AF_PACKET socket on the client end of the veth (created inside the client namespace)."""

    def __init__(self, cns, ifname="vc0"):
        with cns:
            self.s = socket.socket(socket.AF_PACKET, socket.SOCK_RAW, socket.htons(ETH_P_ALL))
            self.s.bind((ifname, 0))
        self.s.setblocking(False)
        self.captured = []

    def send(self, fr):
        self.s.send(fr)

    def recv_frames(self, timeout, want=None, stop_after=None):
        """Collect frames for `timeout` seconds; `want(frame)` filters; stop early after stop_after matches."""
        out = []
        end = time.monotonic() + timeout
        while True:
            left = end - time.monotonic()
            if left <= 0:
                break
            r, _, _ = select.select([self.s], [], [], left)
            if not r:
                break
            try:
                f, meta = self.s.recvfrom(65535)
            except OSError:
                continue
            if meta[2] == socket.PACKET_OUTGOING:
                continue
            if want is None or want(f):
                out.append(f)
                self.captured.append(f)
                if stop_after and len(out) >= stop_after:
                    break
        return out

    def close(self):
        self.s.close()


def is_dhcp_reply(f):
    return len(f) > 42 and f[12:14] == b"\x08\x00" and f[23] == 17 and f[14] & 0xF == 5 and struct.unpack(">H", f[36:38])[0] == 68


def dhcp_of_frame(f):
    ihl = (f[14] & 0xF) * 4
    return parse_dhcp(f[14 + ihl + 8:])


def exchange(client, mac, mtype, xid, options=(), wait=2.0, src_ip="0.0.0.0", **kw):
    """Send one DHCP message, return (list of reply frames for this xid, parsed first reply|None).
    src_ip: IPv4 source address of the request (a renewing client uses its own address)."""
    pl = dhcp_payload(mtype, mac, xid, options=options, **kw)
    client.send(frame(mac if len(mac) == 6 else (mac + b"\0" * 6)[:6], pl, src_ip=src_ip))

    def mine(f):
        if not is_dhcp_reply(f):
            return False
        d = dhcp_of_frame(f)
        return d is not None and d["xid"] == xid

    frames = client.recv_frames(wait, want=mine, stop_after=1)
    return frames, (dhcp_of_frame(frames[0]) if frames else None)


SERVER_V4 = "10.77.0.1"
SERVER_V6 = "fd77::1"
SERVER_MAC = "02:00:5e:10:00:01"


class ErbiumSandbox:
    """Server namespace prepared for the full erbium binary: veth vs0 (10.77.0.1/24, fd77::1/64), client
    namespace with vc0, tmpfs over /var/lib/erbium."""

    def __init__(self, tag):
        self.dir = base.scratch_dir(tag)
        base.setup_loopback(v6=["fd00::1", "fd00::2"])
        base.mount_state_dir()
        self.cns = base.ClientNetns()
        base.make_veth(self.cns)
        base.sh("ip addr add %s/24 dev vs0" % SERVER_V4)
        base.sh("ip -6 addr add %s/64 dev vs0 nodad" % SERVER_V6)
        self.cns.run("ip addr add 10.77.0.200/24 dev vc0")
        self.cns.run("ip -6 addr add fd77::200/64 dev vc0 nodad")
        self.procs = []
        self.client = RawClient(self.cns)

    def start(self, binary, conf_text, name=None, wait_log=None, rust_log="info", wrapper=None, wait_http=None):
        cp = os.path.join(self.dir, "%s-%d.conf" % (name or binary, len(self.procs)))
        open(cp, "w").write(conf_text)
        p = base.Proc(name or binary, [os.path.join(base.BIN, binary), cp], self.dir, rust_log=rust_log, wrapper=wrapper)
        self.procs.append(p)
        if wait_log and not p.wait_for(wait_log, 25.0):
            raise base.Inconclusive("%s did not come up (%r not logged): %s" % (binary, wait_log, p.text()[-500:]))
        if wait_http:
            import dnslib
            if not dnslib.wait_port(wait_http[0], wait_http[1], timeout=25.0):
                raise base.Inconclusive("%s HTTP listener did not come up: %s" % (binary, p.text()[-500:]))
        return p

    def close(self):
        for p in self.procs:
            p.stop()
        try:
            self.client.close()
        except OSError:
            pass
        base.cleanup_dir(self.dir)


def http_get(target, path, family=socket.AF_INET, src=None, timeout=5.0, unix=None, netns=None):
    """Minimal HTTP/1.1 GET.  Returns (status|None, body bytes, error)."""
    try:
        if unix:
            s = socket.socket(socket.AF_UNIX, socket.SOCK_STREAM)
        elif netns is not None:
            with netns:
                s = socket.socket(family, socket.SOCK_STREAM)
        else:
            s = socket.socket(family, socket.SOCK_STREAM)
        s.settimeout(timeout)
        if src and not unix:
            s.bind(src)
        s.connect(unix if unix else target)
        s.sendall(("GET %s HTTP/1.1\r\nHost: erbium\r\nConnection: close\r\n\r\n" % path).encode())
        buf = b""
        while True:
            d = s.recv(65536)
            if not d:
                break
            buf += d
        s.close()
    except OSError as e:
        return None, b"", str(e)
    if not buf.startswith(b"HTTP/1."):
        return None, buf, "not HTTP: %r" % buf[:60]
    head, _, body = buf.partition(b"\r\n\r\n")
    try:
        status = int(head.split()[1])
    except (IndexError, ValueError):
        return None, body, "bad status line"
    if b"chunked" in head.lower():
        out = b""
        while body:
            line, _, rest = body.partition(b"\r\n")
            try:
                n = int(line.strip() or b"0", 16)
            except ValueError:
                break
            if n == 0:
                break
            out += rest[:n]
            body = rest[n + 2:]
        body = out
    return status, body, None


def http_keepalive(target, paths, family=socket.AF_INET, src=None, timeout=5.0, unix=None, netns=None):
    """Several GETs on ONE connection.  Returns list of status codes (None where the exchange broke)."""
    out = []
    try:
        if unix:
            s = socket.socket(socket.AF_UNIX, socket.SOCK_STREAM)
        elif netns is not None:
            with netns:
                s = socket.socket(family, socket.SOCK_STREAM)
        else:
            s = socket.socket(family, socket.SOCK_STREAM)
        s.settimeout(timeout)
        if src and not unix:
            s.bind(src)
        s.connect(unix if unix else target)
    except OSError:
        return [None] * len(paths)
    buf = b""
    try:
        for path in paths:
            s.sendall(("GET %s HTTP/1.1\r\nHost: erbium\r\n\r\n" % path).encode())
            while b"\r\n\r\n" not in buf:
                d = s.recv(65536)
                if not d:
                    raise OSError("closed")
                buf += d
            head, _, rest = buf.partition(b"\r\n\r\n")
            status = int(head.split()[1])
            clen = 0
            for line in head.split(b"\r\n")[1:]:
                if line.lower().startswith(b"content-length:"):
                    clen = int(line.split(b":", 1)[1].strip())
            while len(rest) < clen:
                d = s.recv(65536)
                if not d:
                    raise OSError("closed")
                rest += d
            buf = rest[clen:]
            out.append(status)
    except (OSError, ValueError, IndexError):
        out += [None] * (len(paths) - len(out))
    finally:
        s.close()
    return out
