#!/usr/bin/python3
"""C07 end-to-end leg: every query gets exactly one reply, its own, from the address it was sent
to, however the upstream delays, reorders, duplicates or loses replies; a silent upstream yields
SERVFAIL within a bounded time.  History check over client-send / client-recv / upstream events."""
import os
import random
import socket
import struct
import sys
import threading
import time

sys.path.insert(0, os.path.dirname(os.path.abspath(__file__)))
import base  # noqa: E402
import dnslib  # noqa: E402

CONF = """---
dns-listeners: ['127.0.0.53:53', '[fd00::53]:53', '[::]:5301']
acls:
  - match-subnets: ['127.0.0.0/8', 'fd00::/8', '::1/128']
    apply-access: ['dns-recursion']
dns-routes:
  - domain-suffixes: ['']
    type: forward
    dns-servers: ['127.0.1.1']
"""

SERVFAIL = 2


class Plan:
    """What the upstream does for one case."""

    def __init__(self, case, kind, delay=0.0, drops=0, big=0):
        self.case, self.kind, self.delay, self.drops, self.big = case, kind, delay, drops, big


# the rig's own scripted upstreams (both families' spelling)
UPSTREAM_IPS = {"127.0.1.1", "127.0.1.2", "::ffff:127.0.1.1", "::ffff:127.0.1.2"}

def main():
    base.enter_namespaces()
    args = base.parse_args()
    thorough = args["tier"] == "thorough"
    rnd = random.Random(args["seed"])
    leg = base.Leg(
        "c07-exactly-one-reply-e2e", "C07",
        "real erbium-dns in a private netns with a scripted upstream: batches of up to 256 UDP queries in flight from distinct "
        "source ports with upstream replies delayed in random permutations, held until half of the burst has reached the upstream, duplicated (UDP and on the shared upstream TCP connection), sent with a wrong id, truncated (TC -> TCP) "
        "or dropped for the first k transmissions (k=0..3, and all); TCP queries one per connection incl. split length prefix / split "
        "body / slow reader of a 60 KiB reply; an upstream TCP reply delivered in two pieces (cut inside / right after the length prefix / mid-body) while further queries arrive in the gap; bursts of concurrent TCP queries sharing the upstream TCP channel; listeners v4-only, "
        "v6-only and dual-stack reached over v4 and v6 on non-default local addresses; per query: exactly one response, id and answer "
        "are its own, response source = query destination, SERVFAIL (not silence) when the upstream stays silent, also on a second server "
        "whose upstream first answered later and later (2.5 .. 40 s, first transmission only); an upstream TCP reply after 12 s and, on an upstream that accepts TCP but stays silent, three TCP queries 45 s apart (each must get SERVFAIL within 170 s); "
        "distinct = (transport, listener, upstream behaviour, outcome)", floor=100)
    d = base.scratch_dir("c07")
    procs = []
    ups = []
    try:
        base.setup_loopback(v6=["fd00::53", "fd00::54", "fd00::c1", "fd00::c2"])
        # small TCP send buffers (a legitimate kernel setting): a 60 KiB reply cannot be handed to
        # the kernel in one write while the client reads slowly
        base.sh("sysctl -qw net.ipv4.tcp_wmem='4096 4096 4096'", check=False)
        plans = {}
        batch_seen = {}
        plans_lock = threading.Lock()

        def script(qn, proto, nth, q):
            try:
                case = int(qn.split(".")[0][1:])
            except (ValueError, IndexError):
                return [("reply", dnslib.build_reply(q, rcode=3), 0)]
            with plans_lock:
                pl = plans.get(case)
            if pl is None:
                return [("reply", dnslib.build_reply(q, rcode=3), 0)]
            ans = [(qn, 1, 60, struct.pack(">I", case))]
            try:
                _labels, _o = dnslib.dec_name(q, 12)
                qclass = struct.unpack(">H", q[_o + 2:_o + 4])[0]
            except Exception:  # noqa: BLE001
                qclass = 1
            if qclass != 1:
                # the same name asked in another class gets another answer (as version.bind CH/IN would)
                return [("reply", dnslib.build_reply(q, answers=[(qn, 1, 60, b"\xde\xad\xbe\xef")]), 0)]
            good = dnslib.build_reply(q, answers=ans)
            if pl.kind == "silent":
                return [("drop",)]
            if pl.kind == "exact" and proto == "tcp":
                # a reply whose framed length (2 + message) is exactly pl.big octets, in one piece, with nothing else on the wire
                base_len = len(dnslib.build_reply(q, answers=ans + [(qn, 65280, 60, b"")]))
                fill = pl.big - 2 - base_len
                return [("reply", dnslib.build_reply(q, answers=ans + [(qn, 65280, 60, bytes([case % 251]) * max(fill, 0))]), 0)]
            if pl.kind == "late":
                # only the FIRST transmission is ever answered, and late: after the server has retransmitted
                return [("reply", good, pl.delay)] if nth == 0 else [("drop",)]
            if getattr(pl, "batch", None) is not None:
                with plans_lock:
                    batch_seen.setdefault(pl.batch, set()).add(case)
            if pl.kind == "barrier":
                # held until the upstream has seen `need` queries of the same batch: a schedule in which this
                # reply comes after the others, whatever order the server reads its socket in
                def ready(pl=pl):
                    with plans_lock:
                        return len(batch_seen.get(pl.batch, ())) >= pl.need
                return [("when", ready, good, 60.0)]
            if proto == "tcp" and pl.kind == "dup":
                # the same answer twice on the shared upstream connection while other queries are outstanding
                return [("reply", good, pl.delay), ("reply", good, pl.delay + 0.03)]
            if proto == "tcp" and pl.kind == "split":
                txt = b"".join(bytes([255]) + bytes([65 + (case % 26)]) * 255 for _ in range(max(pl.big, 256) // 256))
                good = dnslib.build_reply(q, answers=ans + [(qn, 16, 60, txt)])
                return [("split", good, 0.0, pl.cut, pl.delay)]
            if proto == "tcp":
                if pl.big:
                    txt = b"".join(bytes([255]) + bytes([65 + (case % 26)]) * 255 for _ in range(pl.big // 256))
                    good = dnslib.build_reply(q, answers=ans + [(qn, 16, 60, txt)])
                return [("reply", good, pl.delay)]
            if pl.kind == "drop" and nth < pl.drops:
                return [("drop",)]
            if pl.kind == "dup":
                return [("reply", good, pl.delay), ("reply", good, pl.delay + 0.05)]
            if pl.kind == "wrongid":
                bad = bytes([q[0] ^ 0xFF, q[1] ^ 0x55]) + good[2:]
                return [("raw", bad, pl.delay)]
            if pl.kind == "tc":
                return [("reply", dnslib.build_reply(q, tc=True), pl.delay)]
            return [("reply", good, pl.delay)]

        ups.append(dnslib.Upstream("127.0.1.1", script, name="u1"))
        conf_path = os.path.join(d, "erbium.conf")
        open(conf_path, "w").write(CONF)
        p = base.Proc("erbium-dns", [os.path.join(base.BIN, "erbium-dns"), conf_path], d, rust_log=os.environ.get("C07_RUST_LOG", "warn"))
        procs.append(p)
        if not dnslib.wait_port("127.0.0.53", 53) or not dnslib.wait_port("::1", 5301, family=socket.AF_INET6):
            leg.inconclusive("erbium-dns did not start listening: %s" % p.text()[-400:])
            leg.write(args)
            return

        # a second server with its own upstream, run alongside: an upstream that answers later and later (always just
        # the first transmission), then falls silent -- whatever the server learnt from the slow replies, silence must
        # still end in SERVFAIL within the bound
        ups.append(dnslib.Upstream("127.0.1.2", script, name="u2"))
        conf2 = os.path.join(d, "erbium2.conf")
        open(conf2, "w").write(CONF.replace("['127.0.0.53:53', '[fd00::53]:53', '[::]:5301']", "['127.0.0.55:53']").replace("127.0.1.1", "127.0.1.2"))
        p2 = base.Proc("erbium-dns-2", [os.path.join(base.BIN, "erbium-dns"), conf2], d, rust_log="warn")
        procs.append(p2)
        if not dnslib.wait_port("127.0.0.55", 53):
            leg.inconclusive("second erbium-dns did not start listening: %s" % p2.text()[-400:])
            leg.write(args)
            return

        listeners = {
            "second": (socket.AF_INET, ("127.0.0.55", 53), "127.0.0.55"),
            "v4only": (socket.AF_INET, ("127.0.0.53", 53), "127.0.0.53"),
            "v6only": (socket.AF_INET6, ("fd00::53", 53, 0, 0), "fd00::53"),
            "dual-via-v4": (socket.AF_INET, ("127.0.0.54", 5301), "127.0.0.54"),
            "dual-via-v6": (socket.AF_INET6, ("fd00::54", 5301, 0, 0), "fd00::54"),
        }
        next_case = [1]
        results = []  # (case, plan, listener, transport, responses[(bytes, from)], err)
        elapsed = {}
        rlock = threading.Lock()

        def new_case(kind, **kw):
            with plans_lock:
                c = next_case[0]
                next_case[0] += 1
                plans[c] = Plan(c, kind, **kw)
                return c

        def one_udp(case, lname, wait):
            fam, dst, _ = listeners[lname]
            qid = rnd.randrange(65536)
            q = dnslib.build_query(qid, "q%d.c07.test" % case, edns=1232)
            t0 = time.monotonic()
            try:
                resp = dnslib.udp_query(dst, q, timeout=wait, family=fam, collect_for=1.2, ignore_from=UPSTREAM_IPS)
                err = None
            except OSError as e:
                resp, err = [], str(e)
            with rlock:
                elapsed[case] = time.monotonic() - t0 - (1.2 if resp else 0.0)
                results.append((case, lname, "udp", qid, resp, err))

        def one_tcp(case, lname, wait, **kw):
            fam, dst, _ = listeners[lname]
            qid = rnd.randrange(65536)
            q = dnslib.build_query(qid, "q%d.c07.test" % case, edns=65535)
            r, err = dnslib.tcp_query(dst, q, timeout=wait, family=fam, **kw)
            with rlock:
                results.append((case, lname, "tcp", qid, [(r, dst)] if r is not None else [], err))

        def run_batch(threads):
            for t in threads:
                t.start()
            for t in threads:
                t.join(timeout=200)

        def slow_then_silent():
            for dly in ([2.5, 6.0, 15.0, 40.0] if thorough else [2.5, 7.0, 18.0]):
                c = new_case("late", delay=dly)
                plans[c].variant = "late"
                one_udp(c, "second", 100.0)
            c = new_case("silent")
            plans[c].variant = "silent-after-late-replies"
            one_udp(c, "second", 100.0)

        def tcp_late_then_trickle():
            # (a) an upstream TCP reply that takes 12 s: the client must get exactly one response (the answer, or SERVFAIL if the
            # server gives up first), and whatever happened, the upstream TCP path must still work afterwards
            # (0) lone upstream TCP replies whose framed size is a multiple of the 4096-octet read buffer (and one off either way)
            for size in ([4095, 4096, 4097, 8192, 12288] if thorough else [4096, 8192]):
                c = new_case("exact", big=size)
                plans[c].variant = "tcp-reply-of-exactly-%d-framed-octets" % size
                one_tcp(c, "second", 20.0)
                time.sleep(0.3)
            c = new_case("late", delay=12.0)
            plans[c].variant = "tcp-late"
            one_tcp(c, "second", 60.0)
            c = new_case("ok")
            plans[c].variant = "tcp-after-late-reply"
            one_tcp(c, "second", 15.0)
            # (b) the upstream accepts TCP but never answers, and further TCP queries keep trickling in: each of them must
            # still get SERVFAIL within the bound (the first one is the one at risk)
            ts = []

            def very_late():
                # (c) meanwhile, on the same upstream connection, a reply that takes 40 s -- longer than any per-query patience a
                # server may have short of its overall bound: exactly one response (the answer or a server failure), and whichever
                # it was, the query after it must be answered again
                c = new_case("late", delay=40.0)
                plans[c].variant = "tcp-very-late"
                one_tcp(c, "second", 170.0)
                time.sleep(1.0)
                c = new_case("ok")
                plans[c].variant = "tcp-after-very-late-reply"
                one_tcp(c, "second", 20.0)

            t = threading.Thread(target=very_late)
            t.start()
            ts.append(t)
            for k in range(3):
                c = new_case("silent")
                plans[c].variant = "tcp-silent-trickle"
                t = threading.Thread(target=one_tcp, args=(c, "second", 170.0))
                t.start()
                ts.append(t)
                if k < 2:
                    time.sleep(45.0)
            for t in ts:
                t.join(timeout=200)

        slow_thread = threading.Thread(target=slow_then_silent)
        slow_thread.start()
        trickle_thread = threading.Thread(target=tcp_late_then_trickle)
        trickle_thread.start()

        # ---- phase A: UDP batches with reordering and faults, per listener
        nbatch = 256 if thorough else 96
        rounds = 3 if thorough else 1
        for rr in range(rounds):
            for lname in [l for l in listeners if l != 'second']:
                threads = []
                batch_id = "%s-%d" % (lname, rr)
                for i in range(nbatch):
                    roll = rnd.random()
                    if i < 4:
                        # the first queries of the burst are answered only after most of the burst has reached the upstream
                        c = new_case("barrier")
                        plans[c].batch, plans[c].need = batch_id, nbatch // 2
                        threads.append(threading.Thread(target=one_udp, args=(c, lname, 45.0)))
                        continue
                    if roll < 0.55:
                        c = new_case("ok", delay=rnd.random() * 0.6)
                    elif roll < 0.65:
                        c = new_case("dup", delay=rnd.random() * 0.3)
                    elif roll < 0.75:
                        c = new_case("wrongid", delay=rnd.random() * 0.2)
                    elif roll < 0.85:
                        c = new_case("tc", delay=rnd.random() * 0.2)
                    else:
                        c = new_case("drop", drops=rnd.choice([1, 1, 2, 2, 3] if thorough else [1, 1, 2]))
                    plans[c].batch = batch_id
                    threads.append(threading.Thread(target=one_udp, args=(c, lname, 45.0)))
                run_batch(threads)
                leg.count("udp_batches", 1)
                leg.max("max_in_flight", nbatch)
        # ---- phase A2: back-to-back bursts in which EVERY reply is held until the upstream has seen (almost) the whole burst
        import select as _select
        nb = 24
        for rr in range(3 if thorough else 1):
            for lname in [l for l in listeners if l != 'second']:
                fam, dst, _ = listeners[lname]
                batch_id = "all-%s-%d" % (lname, rr)
                socks = []
                for i in range(nb):
                    c = new_case("barrier")
                    plans[c].batch, plans[c].need, plans[c].variant = batch_id, nb - 1, "all-held-burst"
                    sk = socket.socket(fam, socket.SOCK_DGRAM)
                    sk.setblocking(False)
                    qid = rnd.randrange(65536)
                    socks.append((sk, c, qid, dnslib.build_query(qid, "q%d.c07.test" % c, edns=1232)))
                for (sk, c, qid, q) in socks:  # one thread, no pauses: the datagrams queue up behind one wake-up
                    sk.sendto(q, dst)
                got = {}
                end = time.monotonic() + 14.0
                while time.monotonic() < end and len(got) < nb:
                    r, _, _ = _select.select([x[0] for x in socks if x[1] not in got], [], [], 0.5)
                    for sk in r:
                        for (s2, c, qid, q) in socks:
                            if s2 is sk:
                                try:
                                    d_, frm = sk.recvfrom(65535)
                                    if frm[0] in UPSTREAM_IPS and frm[1] == 53:
                                        dnslib.STRAY_IGNORED[0] += 1
                                        continue
                                    got.setdefault(c, []).append((d_, frm))
                                except OSError:
                                    pass
                time.sleep(0.3)
                for (sk, c, qid, q) in socks:
                    try:
                        while True:
                            d_, frm = sk.recvfrom(65535)
                            if frm[0] in UPSTREAM_IPS and frm[1] == 53:
                                dnslib.STRAY_IGNORED[0] += 1
                                continue
                            got.setdefault(c, []).append((d_, frm))
                    except OSError:
                        pass
                    sk.close()
                    with rlock:
                        results.append((c, lname, "udp", qid, got.get(c, []), None))
                leg.count("all_held_bursts", 1)
        # ---- phase B: TCP variants
        for lname in [l for l in listeners if l != 'second']:
            threads = []
            for variant in ("plain", "split-prefix", "split-body", "slow-big", "plain", "split-prefix"):
                if variant == "slow-big":
                    c = new_case("ok", big=60000)
                    threads.append(threading.Thread(target=one_tcp, args=(c, lname, 30.0), kwargs={"rcvbuf": 4096, "slow_read": True}))
                else:
                    c = new_case("ok", delay=rnd.random() * 0.2)
                    kw = {}
                    if variant == "split-prefix":
                        kw["split"] = [1, 1, 5]
                    elif variant == "split-body":
                        kw["split"] = [2, 7, 3]
                    threads.append(threading.Thread(target=one_tcp, args=(c, lname, 15.0), kwargs=kw))
                plans[c].variant = variant
            run_batch(threads)
        # ---- phase B1: the same name first in class CH (or HS, or 255), then in class IN: the IN client must get the IN answer
        for k, lname in enumerate([l for l in listeners if l != 'second']):
            c = new_case("ok")
            plans[c].variant = "in-after-other-class"
            fam, dst, _ = listeners[lname]
            qother = dnslib.build_query(rnd.randrange(65536), "q%d.c07.test" % c, qclass=[3, 4, 255, 2][k % 4], edns=1232)
            try:
                dnslib.udp_query(dst, qother, timeout=5.0, family=fam)
                dnslib.tcp_query(dst, qother, timeout=5.0, family=fam)
            except OSError:
                pass
            (one_udp if k % 2 == 0 else one_tcp)(c, lname, 10.0)
        # ---- phase B2: an upstream reply that arrives in two pieces on the shared upstream connection while further
        # queries for that upstream come in during the gap (cut inside the length prefix, just after it, mid-body)
        for rnd_i, cut in enumerate([1, 2, 3, 700, 9000] if not thorough else [1, 2, 3, 10, 700, 1400, 4096, 9000, 20000]):
            lname = ["v4only", "v6only", "dual-via-v4", "dual-via-v6"][rnd_i % 4]
            threads = []
            c = new_case("split", delay=0.6, big=12000 if cut < 9000 else 30000)
            plans[c].cut = cut
            plans[c].variant = "tcp-reply-in-two-pieces"
            threads.append(threading.Thread(target=one_tcp, args=(c, lname, 20.0)))
            threads[0].start()
            time.sleep(0.25)
            others = []
            for k in range(6):
                c2 = new_case("ok", delay=0.0)
                plans[c2].variant = "tcp-during-two-piece-reply"
                t = threading.Thread(target=one_tcp, args=(c2, lname, 20.0))
                others.append(t)
                t.start()
                time.sleep(0.04)
            for t in threads + others:
                t.join(timeout=60)
            leg.count("two_piece_upstream_replies", 1)
        # ---- phase C: bursts of concurrent TCP queries sharing the upstream TCP channel
        bursts = 8 if thorough else 3
        per = 500
        for b in range(bursts):
            threads = []
            for i in range(per):
                if i % 10 == 3:
                    c = new_case("dup", delay=0.2)
                    plans[c].variant = "tcp-burst-dup"
                else:
                    c = new_case("ok", delay=1.0)
                    plans[c].variant = "tcp-burst"
                threads.append(threading.Thread(target=one_tcp, args=(c, "v4only" if i % 2 else "dual-via-v6", 40.0)))
            run_batch(threads)
            leg.count("tcp_bursts", 1)
            # and the channel must still work afterwards
            c = new_case("ok")
            plans[c].variant = "tcp-after-burst"
            one_tcp(c, "v4only", 15.0)
        # ---- phase D: silent upstream / every transmission dropped -> SERVFAIL within bound
        silent_threads = []
        for lname in (["v4only", "dual-via-v6"] if not thorough else [l for l in listeners if l != 'second']):
            c = new_case("silent")
            silent_threads.append(threading.Thread(target=one_udp, args=(c, lname, 100.0)))
        if thorough:
            c = new_case("silent")
            plans[c].variant = "tcp-silent"
            silent_threads.append(threading.Thread(target=one_tcp, args=(c, "v4only", 170.0)))
        run_batch(silent_threads)
        slow_thread.join(timeout=450)
        trickle_thread.join(timeout=450)

        # ---- judge the history
        up_events = ups[0].events + ups[1].events
        tx_by_name = {}
        for e in up_events:
            if e["kind"] == "query":
                tx_by_name.setdefault((e.get("qname") or "").lower(), []).append(e)
        # A datagram a client socket receives from one of the rig's own scripted upstreams is not a response of the server under
        # test: the upstream's late or duplicated reply was addressed to the port of an upstream socket the server has closed since,
        # and the kernel has handed that port to this client socket (seen once, thorough tier on a loaded machine).
        upstream_ips = UPSTREAM_IPS
        leg.count("datagrams_from_the_scripted_upstream_on_a_reused_port_ignored", dnslib.STRAY_IGNORED[0])
        cleaned = []
        for (case, lname, transport, qid, resp, err) in results:
            if transport == "udp":
                stray = [x for x in resp if x[1] and x[1][0] in upstream_ips and x[1][1] == 53]
                if stray:
                    leg.count("datagrams_from_the_scripted_upstream_on_a_reused_port_ignored", len(stray))
                    resp = [x for x in resp if x not in stray]
            cleaned.append((case, lname, transport, qid, resp, err))
        results = cleaned
        for (case, lname, transport, qid, resp, err) in results:
            pl = plans[case]
            leg.eval()
            kind = getattr(pl, "variant", pl.kind if pl.kind != "drop" else "drop%d" % pl.drops)
            expect_dst = listeners[lname][2]
            name = "q%d.c07.test" % case
            replay = {"engine": "c07-e2e", "case": case, "listener": lname, "transport": transport, "upstream_behaviour": kind,
                      "error": err, "responses": [r[0].hex() for r in resp if r[0]]}
            ntx = len(tx_by_name.get(name, []))
            leg.max("max_upstream_transmissions", ntx)
            if len(resp) == 0:
                leg.cls("%s|%s|%s|no-response" % (transport, lname, kind))
                replay["upstream_events"] = [{k: (v if not isinstance(v, bytes) else v.hex()) for k, v in e.items()} for e in up_events if (e.get("qname") or "").lower() == name][:12]
                replay["elapsed_s"] = elapsed.get(case)
                if os.environ.get("C07_RUST_LOG"):
                    replay["server_log"] = [l[:300] for l in p.text().splitlines() if name in l.lower() or "%x]" % qid in l][:40]
                sig = "C07/no-response/%s/%s/%s" % (transport, lname, kind if not kind.startswith("drop") else "drop")
                leg.violation(sig, "query %s over %s to %s (upstream behaviour %s): no response (%s); upstream saw %d transmissions" % (
                    name, transport, lname, kind, err, ntx), replay)
                continue
            if len(resp) > 1:
                leg.violation("C07/more-than-one-response/%s/%s" % (transport, kind), "%d responses for %s" % (len(resp), name), replay)
            data, frm = resp[0]
            try:
                pr = dnslib.parse(data)
            except Exception as e:  # noqa: BLE001
                leg.violation("C07/response-unparseable/%s" % transport, "%s: %s" % (name, e), replay)
                continue
            if pr.id != qid:
                leg.violation("C07/response-id-not-own/%s" % transport, "%s: sent id %d got %d" % (name, qid, pr.id), replay)
            if (pr.qname or "").lower() != name:
                leg.violation("C07/response-for-another-question/%s" % transport, "%s got %s" % (name, pr.qname), replay)
            if transport == "udp":
                src_ip = frm[0]
                if src_ip != expect_dst:
                    leg.violation("C07/response-from-wrong-address/%s" % lname, "sent to %s, response came from %s" % (expect_dst, src_ip), replay)
            if pl.kind == "silent":
                leg.max("max_s_until_servfail_%s" % ("after_late_replies" if kind == "silent-after-late-replies" else "silent_upstream"), int(elapsed.get(case, 0) + 0.999))
                ok = pr.rcode == SERVFAIL
                leg.cls("%s|%s|%s|%s" % (transport, lname, kind, "servfail" if ok else "rcode%d" % pr.rcode))
                if not ok:
                    leg.violation("C07/silent-upstream-not-servfail", "%s: rcode %d" % (name, pr.rcode), replay)
                if ntx > 5:
                    leg.violation("C07/too-many-upstream-transmissions", "%s: %d transmissions" % (name, ntx), replay)
                continue
            want = struct.pack(">I", case)
            got = [rd for (n, t, ttl, rd) in pr.answers if t == 1]
            if pl.kind == "late":
                leg.count("late_replies_%s" % ("given_up_servfail" if pr.rcode == SERVFAIL else "relayed"), 1)
            if pl.kind == "late" and pr.rcode == SERVFAIL:
                # giving up on an upstream that takes this long is the server's right; one response is what counts
                leg.cls("%s|%s|%s|servfail" % (transport, lname, kind))
                continue
            if pl.kind == "drop" and pl.drops >= 3 and pr.rcode == SERVFAIL and ntx > pl.drops:
                # the first three transmissions were lost, the server sent a fourth and the upstream answered that one: whether
                # the answer is still in time hangs on the server's patience after its LAST transmission (its choice, the
                # bounded-time clause) and on how long this rig's upstream thread took to answer on a loaded machine (seen
                # once: thorough tier next to two other thorough runs).  One response, its own, a server failure: not judged
                # further.  With fewer losses the server has another attempt left and must deliver the answer.
                leg.count("drop3_server_gave_up_after_its_last_transmission_servfail", 1)
                leg.cls("%s|%s|%s|servfail-after-last-transmission" % (transport, lname, kind))
                continue
            if pr.rcode != 0 or want not in got:
                leg.cls("%s|%s|%s|wrong-answer" % (transport, lname, kind))
                sig = "C07/not-its-own-answer/%s/%s" % (transport, kind if not kind.startswith("drop") else "drop")
                leg.violation(sig, "%s over %s/%s: rcode %d answers %s (upstream behaviour %s, %d transmissions)" % (
                    name, transport, lname, pr.rcode, [g.hex() for g in got], kind, ntx), replay)
            else:
                leg.cls("%s|%s|%s|ok" % (transport, lname, kind))
            if kind == "slow-big" and len(data) < 59000:
                leg.violation("C07/big-tcp-reply-cut", "%d octets" % len(data), replay)
        # ---- process health
        for pp in (p, p2):
            for line in pp.panics():
                leg.violation("C07/handler-panic/%s" % base.panic_signature(line), line.strip(), {"engine": "c07-e2e", "log_line": line})
            if not pp.alive():
                leg.violation("C07/service-died", pp.text()[-500:], {"engine": "c07-e2e"})
        leg.count("queries", len(results))
        leg.count("upstream_events", len(up_events))
        # reorder evidence: how far apart arrival and reply order were in UDP batches
        leg.sample({"cases": len(results), "first_results": [
            {"case": c, "listener": l, "transport": t, "responses": len(r), "error": e} for (c, l, t, q, r, e) in results[:5]]})
    except base.Inconclusive as e:
        leg.inconclusive(str(e))
    finally:
        for pr_ in procs:
            pr_.stop()
        for u in ups:
            u.stop()
        base.cleanup_dir(d)
    leg.write(args)


if __name__ == "__main__":
    main()
