#!/usr/bin/python3
"""C06 end-to-end leg (real time, TTLs of 1..3 s): a repeated query inside the TTL causes no
upstream transmission and carries TTLs reduced by the elapsed whole seconds; after the TTL the
upstream is asked again; near-miss keys (other type, DO flipped, CD flipped, class CH) always
reach the upstream.  Decisions use upstream transmission counts, not latencies."""
import os
import random
import struct
import sys
import threading
import time

sys.path.insert(0, os.path.dirname(os.path.abspath(__file__)))
import base  # noqa: E402
import dnslib  # noqa: E402

CONF = """---
dns-listeners: ['127.0.0.53:53']
dns-routes:
  - domain-suffixes: ['']
    type: forward
    dns-servers: ['127.0.1.1']
"""
SERVER = ("127.0.0.53", 53)


def main():
    base.enter_namespaces()
    args = base.parse_args()
    thorough = args["tier"] == "thorough"
    rnd = random.Random(args["seed"] * 99991 + 6)
    leg = base.Leg(
        "c06-cache-e2e", "C06",
        "real erbium-dns, upstream replies whose smallest TTL is 1..3 s (other records up to 2^31): per case (unique name) a first query, "
        "a repeat inside the TTL (no upstream transmission allowed, every TTL = original - whole seconds elapsed within 1 s, never above "
        "the original), near-miss queries right after the first one (other type, DO flipped, CD flipped, class CH: each must reach the "
        "upstream) and a repeat 1.1 s after the TTL ran out (the upstream must be asked again); upstream replies that name another question must not create an entry for that name; distinct = (min TTL, step, outcome)", floor=40)
    d = base.scratch_dir("c06")
    procs, ups = [], []
    try:
        base.setup_loopback()
        ttls = {}
        pair_sent = {}

        def script(qn, proto, nth, q):
            if qn.startswith("pair"):
                # numbered replies with a TTL of 1 s; transmissions 0 and 2 of this name are lost (the first client's first two
                # tries), transmission 1 (the second client's) and 3 are answered
                if nth in (0, 2):
                    return [("drop",)]
                pair_sent[(qn, nth)] = time.monotonic()
                return [("reply", dnslib.build_reply(q, answers=[(qn, 1, 1, bytes([10, 66, 0, nth]))]), 0)]
            if qn.startswith("alias"):
                # an upstream whose reply names ANOTHER question (same id): whatever the server makes of it, it must not
                # turn into a cache entry for that other name
                victim = "victim" + qn[5:]
                labels, o = dnslib.dec_name(q, 12)
                fake_q = q[:12] + dnslib.enc_name(victim) + q[o:o + 4]
                return [("reply", dnslib.build_reply(fake_q, answers=[(victim, 1, 60, bytes([10, 66, 6, 6]))]), 0)]
            base_name = qn
            m, extra = ttls.get(qn, (2, 300))
            p = dnslib.parse(q)
            ans = [(qn, 1, m, bytes([10, 6, 0, 1])), (qn, 1, extra, bytes([10, 6, 0, 2]))]
            auth = [(qn, 2, extra, dnslib.enc_name("ns." + base_name))]
            add = [("ns." + base_name, 1, max(m, 1) + 5, bytes([10, 6, 0, 3]))]
            return [("reply", dnslib.build_reply(q, answers=ans, authority=auth, additional=add), 0)]

        ups.append(dnslib.Upstream("127.0.1.1", script, name="u1"))
        cp = os.path.join(d, "erbium.conf")
        open(cp, "w").write(CONF)
        p = base.Proc("erbium-dns", [os.path.join(base.BIN, "erbium-dns"), cp], d, rust_log="error")
        procs.append(p)
        if not dnslib.wait_port("127.0.0.53", 53):
            raise base.Inconclusive("erbium-dns did not start: %s" % p.text()[-300:])
        lock = threading.Lock()
        results = []

        def ntx(name):
            return len([e for e in list(ups[0].events) if e["kind"] == "query" and (e.get("qname") or "").lower() == name])

        def ask(name, **kw):
            r, err = dnslib.tcp_query(SERVER, dnslib.build_query(rnd.randrange(65536), name, **kw), timeout=6.0)
            return dnslib.parse(r) if r is not None else None

        def case(i):
            m = 1 + i % 3
            extra = rnd.choice([m, m + 1, 60, 86400, 2**31 - 1, 2**31, 2**32 - 1])
            name = "t%d.c06.test" % i
            ttls[name] = (m, extra)
            out = {"case": i, "min_ttl": m, "extra": extra, "name": name, "steps": []}
            t0 = time.monotonic()
            c0 = ntx(name)
            r1 = ask(name, edns=1232)
            t_cached = time.monotonic()
            c1 = ntx(name)
            out["steps"].append(("first", 0.0, c1 - c0, [t for (_, _, t, _) in (r1.answers if r1 else [])]))
            # near-miss keys: each must reach the upstream although the entry for (name, A, DO=0, CD=0) is hot
            nm = 0
            for kw in ({"qtype": 28}, {"do": True}, {"cd": True}, {"qclass": 3}):
                b = ntx(name)
                ask(name, edns=1232, **kw)
                nm += 1 if ntx(name) > b else 0
            out["near_miss_tx"] = nm
            # repeat inside the TTL
            time.sleep(max(0.0, 0.45 - (time.monotonic() - t_cached)))
            e2 = time.monotonic() - t0
            c2 = ntx(name)
            r2 = ask(name, edns=1232)
            e2b = time.monotonic() - t_cached
            d_inside = ntx(name) - c2
            out["steps"].append(("inside", (e2, e2b), d_inside, [(n, t, ttl) for (n, t, ttl, _) in (r2.sections[0] + r2.sections[1] + r2.sections[2] if r2 else [])]))
            # repeat after the TTL
            time.sleep(max(0.0, m + 1.1 - (time.monotonic() - t0)))
            c3 = ntx(name)
            r3 = ask(name, edns=1232)
            out["steps"].append(("after", time.monotonic() - t0, ntx(name) - c3, [t for (_, _, t, _) in (r3.answers if r3 else [])]))
            with lock:
                results.append(out)

        ncases = 240 if thorough else 36
        threads = []
        for i in range(ncases):
            threads.append(threading.Thread(target=case, args=(i,)))
        for k in range(0, len(threads), 40):
            for t in threads[k:k + 40]:
                t.start()
            for t in threads[k:k + 40]:
                t.join(timeout=60)
        for out in results:
            m, extra, name = out["min_ttl"], out["extra"], out["name"]
            replay = {"engine": "c06-e2e", "case": out}
            first, inside, after = out["steps"]
            leg.eval(3)
            if first[2] != 1:
                leg.violation("C06/e2e/first-query-transmissions", "%s: %d upstream transmissions for the first query" % (name, first[2]), replay)
                continue
            # near misses: A/DO/CD/CH variants -> 4 more transmissions of that name
            leg.eval()
            leg.cls("near-miss|%s" % ("all-forwarded" if out["near_miss_tx"] >= 4 else "served-from-cache"))
            if out["near_miss_tx"] < 4:
                leg.violation("C06/e2e/different-key-served-from-cache", "%s: only %d of 4 near-miss queries (AAAA, DO, CD, class CH) reached the upstream" % (
                    name, out["near_miss_tx"]), replay)
            tx_inside = inside[2]
            leg.cls("ttl%d|inside|%s" % (m, "cached" if tx_inside == 0 else "refetched"))
            if tx_inside == 0:
                # served from the cache: TTL discipline
                el_lo, el_hi = int(inside[1][1]), int(inside[1][0]) + 1
                orig = {1: None}
                recs = inside[3]
                origs = [m, extra, extra, max(m, 1) + 5]
                if len(recs) != 4:
                    leg.violation("C06/e2e/cached-reply-lost-records", "%s: %d records" % (name, len(recs)), replay)
                # the two answers form one RRset (a cache may serve it in any order): pair them with their originals by TTL rank
                if len(recs) == 4 and m != extra:
                    a = sorted(recs[:2], key=lambda x: x[2])
                    recs = a + list(recs[2:])
                    origs = sorted(origs[:2]) + origs[2:]
                for (rec, o) in zip(recs, origs):
                    ttl = rec[2]
                    if ttl > o:
                        leg.violation("C06/e2e/ttl-grew", "%s: original %d served %d" % (name, o, ttl), replay)
                    elif not (o - el_hi - 1 <= ttl <= o - el_lo):
                        leg.violation("C06/e2e/ttl-not-original-minus-elapsed", "%s: original %d, elapsed %.2f..%.2f s, served %d" % (
                            name, o, inside[1][1], inside[1][0], ttl), replay)
                leg.count("served_from_cache_checked", 1)
            else:
                leg.count("not_cached_inside_ttl", 1)  # safe, merely not caching
            leg.cls("ttl%d|after|%s" % (m, "refetched" if after[2] >= 1 else "stale"))
            if after[2] < 1:
                leg.violation("C06/e2e/served-past-ttl", "%s: min TTL %d s, asked again %.2f s after the first query, upstream saw no new transmission (TTLs %s)" % (
                    name, m, after[1], after[3]), replay)
        # ---- two clients ask the same question 0.1 s apart; the first one's upstream query is lost twice, so it is answered
        # seconds later: what it is handed then must not be older than its TTL (1 s) -- not, say, what the other client got
        for i in range(4 if thorough else 2):
            name = "pair%d.c06.test" % i
            got = {}

            def late_client(tag, delay, name=name, got=got):
                time.sleep(delay)
                rs = dnslib.udp_query(SERVER, dnslib.build_query(rnd.randrange(65536), name, edns=1232), timeout=30.0)
                got[tag] = (time.monotonic(), dnslib.parse(rs[0][0]) if rs else None)

            ta, tb = threading.Thread(target=late_client, args=("A", 0.0)), threading.Thread(target=late_client, args=("B", 0.1))
            ta.start()
            tb.start()
            ta.join(timeout=40)
            tb.join(timeout=40)
            for tag in ("A", "B"):
                leg.eval()
                t_recv, pr = got.get(tag, (None, None))
                if pr is None or not pr.answers:
                    leg.cls("concurrent-pair|%s|no-answer" % tag)
                    continue
                nth = pr.answers[0][3][3]
                age = t_recv - pair_sent.get((name, nth), t_recv)
                ttl = pr.answers[0][2]
                leg.cls("concurrent-pair|%s|reply%d|%s" % (tag, nth, "fresh" if age <= 1.6 else "stale"))
                leg.max("max_age_of_data_handed_to_a_delayed_client_ms", int(age * 1000))
                if age > 1.6:
                    leg.violation("C06/e2e/served-past-ttl/delayed-client-handed-another-clients-entry",
                                  "%s client %s received the upstream's reply no. %d, which the upstream had sent %.2f s earlier with a TTL of 1 s (TTL as served: %d)" % (name, tag, nth, age, ttl),
                                  {"engine": "c06-e2e", "name": name, "client": tag, "reply_no": nth, "age_s": age})
        # ---- replies that echo another question
        for i in range(6 if thorough else 3):
            alias, victim = "alias%d.c06.test" % i, "victim%d.c06.test" % i
            ask(alias, edns=1232)
            ask(alias, edns=1232)
            before = ntx(victim)
            rv = ask(victim, edns=1232)
            leg.eval()
            reached = ntx(victim) - before
            leg.cls("echoed-other-question|%s" % ("victim-forwarded" if reached >= 1 else "victim-served-from-cache"))
            if reached < 1:
                leg.violation("C06/e2e/entry-returned-for-a-name-never-asked",
                              "%s was never asked before, yet the upstream saw no query for it (the upstream's reply to %s had named it in its question section); answer %s" % (
                                  victim, alias, [rd.hex() for (_, _, _, rd) in (rv.answers if rv else [])]),
                              {"engine": "c06-e2e", "alias": alias, "victim": victim})
        leg.count("cases", len(results))
        if len(results) < ncases // 2:
            leg.inconclusive("only %d of %d cases completed" % (len(results), ncases))
        leg.sample({"first_cases": results[:2]})
        for line in p.panics():
            leg.violation("C06/handler-panic/%s" % base.panic_signature(line), line.strip(), {"engine": "c06-e2e"})
    except base.Inconclusive as e:
        leg.inconclusive(str(e))
    finally:
        for pr_ in procs:
            pr_.stop()
        for u in ups:
            u.stop()
        base.cleanup_dir(d)
    leg.write(args)


if __name__ == "__main__":
    main()
