"""Which legs decide which property.  A leg is a command that accepts
--seed N --tier T --out FILE [--replay FILE] and writes a leg report (see harness/src/report.rs)."""

VH = "{VH}"
PY = "/usr/bin/python3"


def hist(prop):
    return {"name": "%s-dhcp-history" % prop.lower(), "engine": "dhcp-hist",
            "argv": [VH, "dhcp-hist", "--prop", prop], "timeout_quick": 600, "timeout_thorough": 7200}


def vh(name, engine, cmd, tq=600, tt=7200):
    return {"name": name, "engine": engine, "argv": [VH, cmd], "timeout_quick": tq, "timeout_thorough": tt}


def e2e(name, engine, script, extra=(), tq=900, tt=7200, tiers=("quick", "thorough")):
    return {"name": name, "engine": engine, "argv": [PY, "{ROOT}/rig/" + script] + list(extra), "needs_bins": True,
            "timeout_quick": tq, "timeout_thorough": tt, "tiers": tiers}


A_E2E = "end-to-end legs run the real binaries (debug build: overflow checks on) in private network+mount namespaces; panics are observed on stderr, liveness by probes"

A_HIST = [
    "time passes by shifting stored timestamps (hook H2); every comparison in the lease store is relative to now",
    "client identity and pool membership are computed by the harness from the generated world, independently of erbium",
    "harness built with overflow-checks and debug-assertions on; panics observed through a panic hook",
]

PROPERTIES = {
    "C01": {"level": "exploration", "legs": [hist("C01"), e2e("c01-dhcp-e2e", "c01-e2e", "e2e_dhcp.py", ["--prop", "C01"])],
            "assumptions": A_HIST + [A_E2E]},
    "C02": {"level": "exploration", "legs": [vh("c02-address-sets-inproc", "c02", "c02"), hist("C02")],
            "assumptions": ["the documented address set D is computed by model/policy.rs, written from erbium.conf(5)",
                            "pools larger than 64 addresses are judged by size and boundary membership, not drained"]},
    "C03": {"level": "exploration", "legs": [vh("c03-reply-construction-inproc", "c03", "c03"),
                                             e2e("c03-relay-e2e", "c03-e2e", "e2e_relay.py", ["--prop", "C03"])],
            "assumptions": ["reference DNS codec (refcodec/dns.rs) written from RFC 1035/3597/6891 is the trusted base", A_E2E,
                            "a relayed REFUSED that is dropped by the REFUSED rate limiter (C16) is not counted as a lost reply"]},
    "C04": {"level": "exploration", "legs": [vh("c04-size-inproc", "c04", "c04"),
                                             e2e("c04-relay-e2e", "c04-e2e", "e2e_relay.py", ["--prop", "C04"])],
            "assumptions": ["reference DNS codec is the trusted base", A_E2E]},
    "C05": {"level": "exploration", "legs": [vh("c05-decoders-inproc", "c05", "c05"), e2e("c05-services-e2e", "c05-e2e", "e2e_c05.py"),
                                             e2e("c05-memcheck-e2e", "memcheck", "e2e_memcheck.py", tiers=("thorough",)),
                                             {"name": "miri-codec-subset", "engine": "miri", "argv": [PY, "{ROOT}/rig/miri_leg.py", "--n", "1500"],
                                              "timeout_thorough": 7200, "tiers": ("thorough",)}],
            "assumptions": [A_E2E, "harness built with overflow-checks and debug-assertions on; panics observed through a panic hook; 120 s watchdog per call"]},
    "C06": {"level": "exploration", "legs": [vh("c06-cache-inproc", "c06", "c06"), e2e("c06-cache-e2e", "c06-e2e", "e2e_c06.py")],
            "assumptions": [A_E2E, "end to end, TTL comparisons allow one second either way; decisions use upstream transmission counts, not latencies", "the cache is driven through hook H3 (same key construction, lifetime, insert, lookup and expiry code as handle_query) under tokio's paused clock"]},
    "C07": {"level": "exploration", "legs": [e2e("c07-exactly-one-reply-e2e", "c07-e2e", "e2e_c07.py")],
            "assumptions": [A_E2E, "bounded-progress restatement: SERVFAIL for a silent upstream must arrive within 100 s (UDP; worst case from the code's constants is 51 s) / 170 s (TCP, thorough only)",
                            "pipelining several queries on one client TCP connection is not demanded by the property and not exercised"]},
    "C08": {"level": "exploration", "legs": [vh("c08-acl-inproc", "c08", "c08"), e2e("c08-acl-e2e", "c08-e2e", "e2e_c08.py")],
            "assumptions": [A_E2E, "independent first-match model in legs/c08.rs; IPv6 prefixes against plain IPv4 clients are left unconstrained"]},
    "C09": {"level": "exploration", "legs": [hist("C09")], "assumptions": A_HIST},
    "C10": {"level": "exploration", "legs": [hist("C10")], "assumptions": A_HIST},
    "C11": {"level": "exploration", "legs": [vh("c11-policy-model-inproc", "c11", "c11")],
            "assumptions": ["independent model of erbium.conf(5) in model/policy.rs; option 121, policy-level $self4, match-interface and empty list values are unconstrained"]},
    "C12": {"level": "exploration", "legs": [vh("c12-wire-inproc", "c12", "c12"), e2e("c12-dhcp-e2e", "c12-e2e", "e2e_dhcp.py", ["--prop", "C12"])],
            "assumptions": [A_E2E, "reference DHCP and Ethernet/IPv4/UDP codecs written from the RFCs are the trusted base"]},
    "C13": {"level": "exploration", "legs": [hist("C13")], "assumptions": A_HIST},
    "C14": {"level": "exploration", "legs": [vh("c14-roundtrip-inproc", "c14", "c14")],
            "assumptions": ["reference DNS codec with pointer validation is the trusted base"]},
    "C15": {"level": "exploration", "legs": [e2e("c15-routes-e2e", "c15-e2e", "e2e_c15.py")],
            "assumptions": [A_E2E, "route choice is fused with forwarding in the code, so it is observed end to end only"]},
    "C16": {"level": "exploration", "legs": [vh("c16-bucket-cookie-inproc", "c16", "c16"), e2e("c16-refused-rate-e2e", "c16-e2e", "e2e_c16.py")],
            "assumptions": [A_E2E, "a source hashes to two buckets, so the per-source bound checked end to end is 2B + 2R(dt+1) plus one maximal charge of slack", "burst B and rate R are read from the code's constants (hook H3)"]},
    "C17": {"level": "exploration", "legs": [vh("c17-ra-inproc", "c17", "c17"), e2e("c17-ra-e2e", "c17-e2e", "e2e_c17.py")],
            "assumptions": [A_E2E, "RA decoder written from RFC 4861/8106/8781/8910 is the trusted base; RDNSS/DNSSL lifetime when not configured is unconstrained"]},
    "C18": {"level": "fault_enumeration", "legs": [hist("C18"), vh("c18-schema-inproc", "c18-schema", "c18-schema"), e2e("c18-schema-e2e", "c18-schema-e2e", "e2e_c18_schema.py"), e2e("c18-crash-points-e2e", "c18-e2e", "e2e_c18.py", tq=1200, tt=10800)],
            "assumptions": A_HIST + [A_E2E, "crash = SIGKILL of the process at syscall granularity on tmpfs; power loss and torn sector writes are out of reach",
                                     "kill points are enumerated per syscall name by invocation index; the kernel's scheduling decides which thread issues the N-th call"]},
    "C19": {"level": "exploration", "legs": [vh("c19-config-inproc", "c19", "c19", 900, 7200), e2e("c19-dns-config-e2e", "c19-e2e", "e2e_c19.py")],
            "assumptions": [A_E2E, "pools beyond 2^20 addresses (IPv4 prefixes /1../11, wide ranges) are skipped and counted: memory exhaustion is not what the property names"]},
    "C20": {"level": "exploration", "legs": [hist("C20"), e2e("c20-listing-gauges-e2e", "c20-e2e", "e2e_c20.py")],
            "assumptions": A_HIST + [A_E2E]},
}

# Properties not claimed (yet): id -> reason.  Kept current by hand; see DESIGN.md section 5.
NOT_APPLICABLE = {}
