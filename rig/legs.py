"""Which legs decide which property.  A leg is a command that accepts
--seed N --tier T --out FILE [--replay FILE] and writes a leg report (see harness/src/report.rs)."""

VH = "{VH}"
PY = "/usr/bin/python3"


def hist(prop):
    return {"name": "%s-dhcp-history" % prop.lower(), "engine": "dhcp-hist",
            "argv": [VH, "dhcp-hist", "--prop", prop], "timeout_quick": 600, "timeout_thorough": 7200}


PROPERTIES = {
    "C01": {
        "level": "exploration",
        "legs": [hist("C01")],
        "assumptions": [
            "time passes by shifting stored timestamps (hook H2); every comparison in the lease store is relative to now",
            "client identity and pool membership are computed by the harness from the generated world, independent of erbium",
        ],
    },
    "C05": {
        "level": "exploration",
        "legs": [{"name": "c05-decoders-inproc", "engine": "c05", "argv": [VH, "c05"],
                  "timeout_quick": 600, "timeout_thorough": 7200}],
        "assumptions": ["harness built with overflow-checks and debug-assertions on; panics observed through a panic hook"],
    },
    "C09": {"level": "exploration", "legs": [hist("C09")], "assumptions": []},
    "C10": {"level": "exploration", "legs": [hist("C10")], "assumptions": []},
    "C12": {
        "level": "exploration",
        "legs": [{"name": "c12-wire-inproc", "engine": "c12", "argv": [VH, "c12"],
                  "timeout_quick": 600, "timeout_thorough": 7200}],
        "assumptions": ["reference DHCP and Ethernet/IPv4/UDP codecs written from the RFCs are the trusted base"],
    },
    "C13": {"level": "exploration", "legs": [hist("C13")], "assumptions": []},
    "C18": {"level": "exploration", "legs": [hist("C18")], "assumptions": []},
    "C20": {"level": "exploration", "legs": [hist("C20")], "assumptions": []},
}

# Properties not claimed (yet): id -> reason.  Kept current by hand; see DESIGN.md section 5.
NOT_APPLICABLE = {}
