"""Common machinery of the end-to-end rig: private namespaces, process supervision, leg reports.

Every e2e leg script calls base.enter_namespaces() first: the script re-executes itself under
`unshare -n -m --propagation private`, so fixed ports (53, 67, 9968), /var/lib/erbium and interface
names never collide between parallel checks or with the host.
"""
import ctypes
import json
import os
import signal
import subprocess
import sys
import time

ROOT = os.path.dirname(os.path.dirname(os.path.abspath(__file__)))
BUILD = os.path.join(ROOT, ".build")
BIN = os.path.join(BUILD, "repo", "debug")
VH = os.path.join(BUILD, "harness", "debug", "vh")
CLONE_NEWNET = 0x40000000
_libc = ctypes.CDLL("libc.so.6", use_errno=True)


class Inconclusive(Exception):
    """Rig trouble: never a violation."""


def sh(cmd, check=True):
    p = subprocess.run(cmd, shell=True, stdout=subprocess.PIPE, stderr=subprocess.STDOUT, text=True)
    if check and p.returncode != 0:
        raise Inconclusive("command failed: %s: %s" % (cmd, p.stdout.strip()[-300:]))
    return p.stdout


def enter_namespaces():
    """Re-exec under unshare (network + mount namespaces) unless already inside."""
    if os.environ.get("VERIF_IN_NS") == "1":
        return
    env = dict(os.environ, VERIF_IN_NS="1")
    argv = ["unshare", "-n", "-m", "--propagation", "private", sys.executable] + sys.argv
    try:
        os.execvpe("unshare", argv, env)
    except OSError as e:
        # cannot isolate: write an inconclusive report and leave
        args = parse_args()
        leg = Leg("e2e", "?", "")
        leg.inconclusive("cannot enter private namespaces: %s" % e)
        leg.write(args)
        sys.exit(0)


def setup_loopback(v6=()):
    sh("ip link set lo up")
    for a in v6:
        sh("ip -6 addr add %s/128 dev lo nodad" % a)
    # let replies to 127.x.y.z sources work and keep the kernel quiet about ICMP
    sh("sysctl -qw net.ipv4.icmp_ratelimit=0", check=False)
    sh("sysctl -qw net.core.rmem_max=8388608 net.core.rmem_default=2097152", check=False)


def mount_state_dir():
    os.makedirs("/var/lib/erbium", exist_ok=True)
    sh("mount -t tmpfs -o size=64m tmpfs /var/lib/erbium")


def scratch_dir(tag):
    base = "/dev/shm" if os.path.isdir("/dev/shm") else "/tmp"
    d = os.path.join(base, "verif-%s-%d" % (tag, os.getpid()))
    os.makedirs(d, exist_ok=True)
    return d


class ClientNetns:
    """A second network namespace for the client end of a veth pair."""

    def __init__(self, name="verifc"):
        self.name = name
        sh("mkdir -p /run/netns")
        sh("mount -t tmpfs tmpfs /run/netns", check=False)
        sh("ip netns add %s" % name)
        self.fd = os.open("/run/netns/%s" % name, os.O_RDONLY)
        self.home = os.open("/proc/self/ns/net", os.O_RDONLY)

    def __enter__(self):
        if _libc.setns(self.fd, CLONE_NEWNET) != 0:
            raise Inconclusive("setns failed: %s" % os.strerror(ctypes.get_errno()))
        return self

    def __exit__(self, *a):
        if _libc.setns(self.home, CLONE_NEWNET) != 0:
            raise Inconclusive("setns(home) failed")

    def run(self, cmd, check=True):
        return sh("ip netns exec %s %s" % (self.name, cmd), check=check)


def make_veth(cns, server_if="vs0", client_if="vc0", server_mac="02:00:5e:10:00:01", client_mac="02:00:5e:10:00:02"):
    sh("ip link add %s address %s type veth peer name %s address %s" % (server_if, server_mac, client_if, client_mac))
    sh("ip link set %s netns %s" % (client_if, cns.name))
    sh("sysctl -qw net.ipv6.conf.%s.accept_dad=0 net.ipv6.conf.%s.accept_ra=0" % (server_if, server_if), check=False)
    sh("ip link set %s up" % server_if)
    cns.run("sysctl -qw net.ipv6.conf.%s.accept_dad=0 net.ipv6.conf.%s.accept_ra=0" % (client_if, client_if), check=False)
    cns.run("ip link set lo up")
    cns.run("ip link set %s up" % client_if)


class Proc:
    """A supervised erbium process: stderr/stdout to a log file, panic lines counted."""

    def __init__(self, name, argv, logdir, env=None, rust_log="info", wrapper=None):
        self.name = name
        self.log_path = os.path.join(logdir, "%s-%d.log" % (name, int(time.time() * 1000) % 10**9))
        self.log = open(self.log_path, "wb")
        e = dict(os.environ, RUST_BACKTRACE="0", RUST_LOG=rust_log)
        if env:
            e.update(env)
        self.argv = (wrapper or []) + argv
        # own session: stop() can take down wrappers (strace) and their children without touching anybody else
        self.p = subprocess.Popen(self.argv, stdout=self.log, stderr=subprocess.STDOUT, env=e, cwd=logdir, start_new_session=True)

    def alive(self):
        return self.p.poll() is None

    def text(self):
        try:
            return open(self.log_path, "rb").read().decode("utf-8", "replace")
        except OSError:
            return ""

    def panics(self):
        return [l for l in self.text().splitlines() if "panicked at" in l]

    def wait_for(self, needle, timeout=20.0):
        t0 = time.time()
        while time.time() - t0 < timeout:
            if needle in self.text():
                return True
            if not self.alive():
                return False
            time.sleep(0.05)
        return False

    def _killpg(self, sig):
        try:
            os.killpg(self.p.pid, sig)
        except OSError:
            pass

    def stop(self, sig=signal.SIGTERM):
        if self.alive():
            try:
                self._killpg(sig)
                self.p.wait(timeout=3)
            except (OSError, subprocess.TimeoutExpired):
                pass
        # whatever is left of the group (tracees of a dead tracer, children) goes too
        self._killpg(signal.SIGKILL)
        try:
            self.p.wait(timeout=5)
        except (OSError, subprocess.TimeoutExpired):
            pass
        try:
            self.log.close()
        except OSError:
            pass

    def kill9(self):
        self._killpg(signal.SIGKILL)
        try:
            self.p.wait(timeout=5)
        except (OSError, subprocess.TimeoutExpired):
            pass


def panic_signature(line):
    """'thread .. panicked at crates/erbium-core/src/dns/mod.rs:753:30:' -> file without line numbers."""
    try:
        loc = line.split("panicked at", 1)[1].strip().rstrip(":")
        f = loc.split(":")[0]
        if "crates/" in f:
            f = f.split("crates/", 1)[1]
        return f
    except IndexError:
        return "unknown"


def parse_args():
    a = {"seed": 1, "tier": "quick", "out": "", "replay": None}
    argv = sys.argv[1:]
    i = 0
    while i < len(argv):
        if argv[i].startswith("--") and i + 1 < len(argv):
            a[argv[i][2:]] = argv[i + 1]
            i += 2
        else:
            i += 1
    a["seed"] = int(a["seed"])
    return a


class Leg:
    """Same report shape as harness/src/report.rs."""

    def __init__(self, name, prop, rule, floor=1):
        self.name, self.prop, self.rule, self.floor = name, prop, rule, floor
        self.evaluations = 0
        self.distinct = set()
        self.samples = []
        self.counters = {}
        self.violations = []
        self.by_sig = {}
        self.inconcl = []
        self.t0 = time.time()

    def eval(self, n=1):
        self.evaluations += n

    def cls(self, key):
        if len(self.distinct) < 100000:
            self.distinct.add(key)

    def count(self, k, n=1):
        self.counters[k] = self.counters.get(k, 0) + n

    def max(self, k, n):
        self.counters[k] = max(self.counters.get(k, 0), n)

    def sample(self, v):
        if len(self.samples) < 6:
            self.samples.append(v)

    def violation(self, sig, detail, replay=None):
        self.by_sig[sig] = self.by_sig.get(sig, 0) + 1
        if self.by_sig[sig] <= 2:
            self.violations.append({"signature": sig, "detail": str(detail)[:2000], "replay": replay or {}})

    def inconclusive(self, why):
        if len(self.inconcl) < 20:
            self.inconcl.append(str(why)[:600])

    def merge_report(self, rep):
        """Fold a vh judge report (dict) into this leg."""
        self.evaluations += rep.get("evaluations", 0)
        for s in rep.get("samples", []):
            self.sample(s)
        for k, v in rep.get("counters", {}).items():
            if k.startswith("max_"):
                self.max(k, v)
            else:
                self.count(k, v)
        for sig, n in rep.get("violations_by_signature", {}).items():
            self.by_sig[sig] = self.by_sig.get(sig, 0) + n
        for v in rep.get("violations", []):
            if sum(1 for x in self.violations if x["signature"] == v["signature"]) < 2:
                self.violations.append(v)
        for i in rep.get("inconclusive", []):
            self.inconclusive(i)
        self._extra_distinct = getattr(self, "_extra_distinct", 0) + rep.get("distinct_nontrivial", 0)

    def to_json(self, args):
        if self.by_sig:
            verdict = "violated"
        elif self.inconcl or self.evaluations < self.floor:
            verdict = "inconclusive"
        else:
            verdict = "held"
        return {
            "leg": self.name, "property": self.prop, "seed": args["seed"], "tier": args["tier"], "verdict": verdict,
            "evaluations": self.evaluations, "distinct_nontrivial": len(self.distinct) + getattr(self, "_extra_distinct", 0),
            "rule": self.rule, "samples": self.samples, "counters": self.counters, "violations": self.violations,
            "violations_by_signature": self.by_sig, "inconclusive": self.inconcl, "floor": self.floor,
            "wall_s": time.time() - self.t0,
        }

    def write(self, args):
        j = self.to_json(args)
        if args.get("out"):
            with open(args["out"], "w") as f:
                json.dump(j, f, indent=1)
        print("leg=%s verdict=%s evaluations=%d distinct=%d violations=%s" % (
            j["leg"], j["verdict"], j["evaluations"], j["distinct_nontrivial"], json.dumps(j["violations_by_signature"])))


def run_vh(argv, timeout=600):
    p = subprocess.run([VH] + argv, stdout=subprocess.PIPE, stderr=subprocess.STDOUT, text=True, timeout=timeout)
    return p.returncode, p.stdout


def cleanup_dir(d):
    subprocess.run(["rm", "-rf", d])
