#!/usr/bin/python3
"""DHCP end-to-end legs over a veth pair against the real erbium-dhcp:
  --prop C12  reply frames on the wire (broadcast bit, checksums, payload) judged by `vh judge-frames`
  --prop C01  simultaneous DISCOVER/REQUEST from more clients than addresses: no address to two clients
"""
import json
import os
import random
import sys
import threading
import time

sys.path.insert(0, os.path.dirname(os.path.abspath(__file__)))
import base  # noqa: E402
import dhcplib  # noqa: E402

LONG = "d" * 300 + ".example"


def conf(pool_lo, pool_hi, long_name=False):
    y = "---\ndhcp-policies:\n  - match-subnet: 10.77.0.0/24\n    apply-range: { start: 10.77.0.%d, end: 10.77.0.%d }\n" % (pool_lo, pool_hi)
    if long_name:
        y += "    policies:\n      - { match-class-id: 'long', apply-domain-name: '%s' }\n" % LONG
    return y


def run_c12(args, leg, sb):
    thorough = args["tier"] == "thorough"
    rnd = random.Random(args["seed"] * 7 + 12)
    p = sb.start("erbium-dhcp", conf(10, 250, long_name=True), wait_log=None)
    time.sleep(1.0)
    events = []
    flagset = [0, 0x8000, 0x0080, 0x7fff, 0xffff] + [rnd.randrange(65536) for _ in range(40 if thorough else 8)]
    xid = 7000
    n = 0
    for rep in range(5 if thorough else 2):  # 5 x 45 clients fit the 241-address pool
        for fl in flagset:
            n += 1
            mac = bytes([2, 0x12, 0, (n >> 8) & 0xFF, n & 0xFF, 7])
            long_opt = (n % 3 == 0)
            opts = [(55, bytes([1, 3, 6, 15, 28, 51]))]
            if long_opt:
                opts.append((60, b"long"))
            xid += 1
            frames, off = dhcplib.exchange(sb.client, mac, 1, xid, options=opts, flags=fl)
            ev = {"kind": "DISCOVER", "flags": fl, "xid": xid, "chaddr_hex": mac.hex(), "server_ip": dhcplib.SERVER_V4,
                  "frame_hex": frames[0].hex() if frames else None}
            if long_opt:
                ev["expect_option_15_len"] = len(LONG)
            events.append(ev)
            if off:
                xid += 1
                ropts = opts + [(50, bytes(int(x) for x in off["yiaddr"].split("."))), (54, bytes([10, 77, 0, 1]))]
                frames, ack = dhcplib.exchange(sb.client, mac, 3, xid, options=ropts, flags=fl)
                ev = {"kind": "REQUEST", "flags": fl, "xid": xid, "chaddr_hex": mac.hex(), "server_ip": dhcplib.SERVER_V4,
                      "frame_hex": frames[0].hex() if frames else None}
                if long_opt:
                    ev["expect_option_15_len"] = len(LONG)
                events.append(ev)
                # the same client renewing: ciaddr filled in, no requested-address / server-id options, same flags
                if ack and ack["options"].get(53) == b"\x05" and n % 2 == 0:
                    xid += 1
                    frames, ack2 = dhcplib.exchange(sb.client, mac, 3, xid, options=opts, flags=fl, ciaddr=ack["yiaddr"], src_ip=ack["yiaddr"] if n % 4 == 0 else "0.0.0.0")
                    ev = {"kind": "REQUEST", "renewing": True, "flags": fl, "xid": xid, "chaddr_hex": mac.hex(), "server_ip": dhcplib.SERVER_V4,
                          "frame_hex": frames[0].hex() if frames else None}
                    if long_opt:
                        ev["expect_option_15_len"] = len(LONG)
                    events.append(ev)
    evp = os.path.join(sb.dir, "frames.jsonl")
    with open(evp, "w") as f:
        for e in events:
            f.write(json.dumps(e) + "\n")
    jout = os.path.join(sb.dir, "judge.json")
    rc, out = base.run_vh(["judge-frames", "--events", evp, "--seed", str(args["seed"]), "--tier", args["tier"], "--out", jout])
    try:
        rep = json.load(open(jout))
    except (OSError, ValueError):
        raise base.Inconclusive("judge produced no report: %s" % out[-300:])
    leg.rule = rep.get("rule", "")
    leg.merge_report(rep)
    leg.count("exchanges", len(events))
    for line in p.panics():
        leg.violation("C12/handler-panic/%s" % base.panic_signature(line), line.strip(), {"engine": "c12-e2e"})


def run_c01(args, leg, sb):
    thorough = args["tier"] == "thorough"
    rounds = 12 if thorough else 3
    K = 24 if thorough else 12
    leg.rule = ("real erbium-dhcp (multi-threaded runtime, lease store behind a mutex) over a veth pair; per round a fresh store and a pool of "
                "K-1 addresses, K clients send DISCOVER in one burst (frames written back to back), then every client that got an OFFER sends "
                "REQUEST in one burst; every OFFER/ACK logged; no address may be offered or acknowledged to two clients, the acknowledged "
                "address equals the offered one, and the store holds one row per address; distinct = (round, phase, outcome)")
    for rd in range(rounds):
        try:
            os.unlink("/var/lib/erbium/leases.sqlite")
        except OSError:
            pass
        p = sb.start("erbium-dhcp", conf(10, 10 + K - 2))
        time.sleep(0.8)
        macs = [bytes([2, 0x01, rd, 0, 0, i]) for i in range(K)]
        xid0 = 9000 + rd * 1000
        # burst of DISCOVERs
        frames_out = [dhcplib.frame(m, dhcplib.dhcp_payload(1, m, xid0 + i, options=[(55, bytes([1, 3, 6, 51]))])) for i, m in enumerate(macs)]
        for f in frames_out:
            sb.client.send(f)
        got = sb.client.recv_frames(2.5, want=dhcplib.is_dhcp_reply)
        offers = {}
        for f in got:
            d = dhcplib.dhcp_of_frame(f)
            if d and xid0 <= d["xid"] < xid0 + K and d["options"].get(53) == b"\x02":
                offers[d["xid"] - xid0] = d["yiaddr"]
        leg.eval(len(macs))
        by_addr = {}
        for i, a in offers.items():
            by_addr.setdefault(a, []).append(i)
        dup = {a: c for a, c in by_addr.items() if len(c) > 1}
        leg.cls("round|offers|%s" % ("dup" if dup else "distinct"))
        leg.count("offers", len(offers))
        if dup:
            leg.violation("C01/e2e/same-address-offered-to-two-clients", "round %d: %s" % (rd, dup), {"engine": "c01-e2e", "round": rd, "offers": offers})
        if len(offers) > K - 1:
            leg.violation("C01/e2e/more-offers-than-addresses", "%d offers for %d addresses" % (len(offers), K - 1), {"engine": "c01-e2e", "offers": offers})
        # burst of REQUESTs
        frames_out = []
        for i, a in offers.items():
            m = macs[i]
            opts = [(50, bytes(int(x) for x in a.split("."))), (54, bytes([10, 77, 0, 1])), (55, bytes([1, 3, 6, 51]))]
            frames_out.append(dhcplib.frame(m, dhcplib.dhcp_payload(3, m, xid0 + 500 + i, options=opts)))
        for f in frames_out:
            sb.client.send(f)
        got = sb.client.recv_frames(2.5, want=dhcplib.is_dhcp_reply)
        acks = {}
        for f in got:
            d = dhcplib.dhcp_of_frame(f)
            if d and xid0 + 500 <= d["xid"] < xid0 + 500 + K and d["options"].get(53) == b"\x05":
                acks[d["xid"] - xid0 - 500] = d["yiaddr"]
        leg.eval(len(frames_out))
        leg.count("acks", len(acks))
        by_addr = {}
        for i, a in acks.items():
            by_addr.setdefault(a, []).append(i)
        dup = {a: c for a, c in by_addr.items() if len(c) > 1}
        changed = {i: (offers[i], a) for i, a in acks.items() if offers.get(i) != a}
        leg.cls("round|acks|%s|%s" % ("dup" if dup else "distinct", "changed" if changed else "same"))
        if dup:
            leg.violation("C01/e2e/same-address-acknowledged-to-two-clients", "round %d: %s" % (rd, dup), {"engine": "c01-e2e", "acks": acks})
        if changed:
            leg.violation("C09/e2e/acknowledged-address-differs-from-offer", "round %d: %s" % (rd, changed), {"engine": "c01-e2e", "acks": acks, "offers": offers})
        if len(offers) < K - 2:
            leg.count("rounds_with_few_offers", 1)
        for line in p.panics():
            leg.violation("C01/handler-panic/%s" % base.panic_signature(line), line.strip(), {"engine": "c01-e2e"})
        p.stop()
        if rd == 0:
            leg.sample({"round": rd, "clients": K, "pool": K - 1, "offers": offers, "acks": acks})
    if leg.counters.get("offers", 0) < rounds * 3:
        leg.inconclusive("too few offers observed (%s)" % leg.counters)


def main():
    base.enter_namespaces()
    args = base.parse_args()
    prop = args.get("prop", "C12")
    leg = base.Leg("%s-dhcp-e2e" % prop.lower(), prop, "", floor=20)
    sb = None
    try:
        sb = dhcplib.ErbiumSandbox(prop.lower())
        if prop == "C12":
            run_c12(args, leg, sb)
        else:
            run_c01(args, leg, sb)
    except base.Inconclusive as e:
        leg.inconclusive(str(e))
    finally:
        if sb:
            sb.close()
    leg.write(args)


if __name__ == "__main__":
    main()
