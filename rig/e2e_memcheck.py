#!/usr/bin/python3
"""Thorough-tier sanitizer leg: erbium-dns and erbium-dhcp under valgrind memcheck while a reduced
hostile workload runs (memcheck sees the FFI parts Miri cannot: SQLite, sockets, cmsg handling).
Every memcheck error that is not the one documented suppression is a C05 violation."""
import os
import re
import socket
import struct
import sys
import time

sys.path.insert(0, os.path.dirname(os.path.abspath(__file__)))
import base  # noqa: E402
import dhcplib  # noqa: E402
import dnslib  # noqa: E402
from e2e_c05 import corpus  # noqa: E402

CONF_DNS = """---
dns-listeners: ['127.0.0.53:53', '[::]:5301']
dns-routes:
  - domain-suffixes: ['']
    type: forward
    dns-servers: ['127.0.1.1']
  - domain-suffixes: ['invalid']
    type: forge-nxdomain
"""
CONF_DHCP = "---\ndhcp-policies:\n  - match-subnet: 10.77.0.0/24\n    apply-range: { start: 10.77.0.10, end: 10.77.0.200 }\n"


def vg(logfile):
    return ["valgrind", "--quiet", "--error-exitcode=0", "--log-file=%s" % logfile, "--num-callers=20", "--track-origins=no",
            "--suppressions=%s" % os.path.join(base.ROOT, "rig", "valgrind.supp")]


def errors(logfile):
    try:
        text = open(logfile, errors="replace").read()
    except OSError:
        return None, ""
    blocks = [b for b in re.split(r"\n==\d+== \n", text) if re.search(r"==\d+== (Invalid|Conditional|Use of|Syscall param|Mismatched|Source and destination|Argument)", b)]
    out = []
    for b in blocks:
        head = re.search(r"==\d+== ((Invalid|Conditional|Use of|Syscall param|Mismatched|Source and|Argument)[^\n]*)", b).group(1)
        frames = re.findall(r"(?:at|by) 0x[0-9A-F]+: ([^\n]+)", b)
        inrepo = [f for f in frames if "erbium" in f]
        out.append((head, inrepo[0] if inrepo else (frames[0] if frames else "?"), b[:1500]))
    return out, text


def main():
    base.enter_namespaces()
    args = base.parse_args()
    leg = base.Leg(
        "c05-memcheck-e2e", "C05",
        "valgrind memcheck (plain debug binaries, one documented suppression for uninitialised sockaddr padding handed to sendmsg) on "
        "erbium-dns under hostile queries (UDP/TCP) plus hostile upstream replies, and on erbium-dhcp under hostile DHCP frames with "
        "DISCOVER/REQUEST exchanges in between; every other memcheck error is a violation (signature = error kind + first erbium frame); "
        "distinct = (process, input kind)", floor=50)
    sb = None
    ups = []
    try:
        sb = dhcplib.ErbiumSandbox("memcheck")
        d = sb.dir
        n = 400
        hostile_replies = corpus("dns-upstream-reply", args["seed"], n, d)
        idx = [0]

        def script(qn, proto, nth, q):
            if qn.startswith("ok"):
                return [("reply", dnslib.build_reply(q, answers=[(qn, 1, 0, bytes([10, 1, 1, 1]))]), 0)]
            h = bytes.fromhex(hostile_replies[idx[0] % len(hostile_replies)]["hex"])
            idx[0] += 1
            return [("reply", h if len(h) >= 2 else h + b"\0\0", 0)]

        ups.append(dnslib.Upstream("127.0.1.1", script, name="u1"))
        # ---- erbium-dns
        log1 = os.path.join(d, "vg-dns.log")
        cp = os.path.join(d, "dns.conf")
        open(cp, "w").write(CONF_DNS)
        p = base.Proc("erbium-dns", [os.path.join(base.BIN, "erbium-dns"), cp], d, rust_log="error", wrapper=vg(log1))
        sb.procs.append(p)
        if not dnslib.wait_port("127.0.0.53", 53, timeout=90):
            raise base.Inconclusive("erbium-dns under valgrind did not start: %s" % p.text()[-300:])
        us = socket.socket(socket.AF_INET, socket.SOCK_DGRAM)
        for k, i in enumerate(corpus("dns-query", args["seed"], n, d)):
            data = bytes.fromhex(i["hex"])
            leg.eval()
            leg.cls("dns|%s" % i["how"].split()[0])
            if k % 4 == 3:
                try:
                    ts = socket.create_connection(("127.0.0.53", 53), timeout=5)
                    ts.sendall(struct.pack(">H", len(data)) + data)
                    ts.settimeout(0.5)
                    try:
                        ts.recv(65535)
                    except OSError:
                        pass
                    ts.close()
                except OSError:
                    pass
            else:
                us.sendto(data[:60000], ("127.0.0.53", 53) if k % 2 else ("127.0.0.1", 5301))
            if k % 10 == 0:
                us.sendto(dnslib.build_query(k, "h%d.memcheck.test" % k, edns=1232), ("127.0.0.53", 53))
                time.sleep(0.05)
        ok = 0
        for k in range(8):
            rs = dnslib.udp_query(("127.0.0.53", 53), dnslib.build_query(k, "ok%d.memcheck.test" % k, edns=1232), timeout=20.0)
            ok += 1 if rs and dnslib.parse(rs[0][0]).rcode == 0 else 0
            r, err = dnslib.tcp_query(("127.0.0.53", 53), dnslib.build_query(k, "oktcp%d.memcheck.test" % k, edns=1232), timeout=20.0)
            ok += 1 if r is not None else 0
        leg.count("valid_dns_queries_answered_under_valgrind", ok)
        us.close()
        time.sleep(1.0)
        p.stop()
        time.sleep(0.5)
        # ---- erbium-dhcp
        log2 = os.path.join(d, "vg-dhcp.log")
        p2 = sb.start("erbium-dhcp", CONF_DHCP, wrapper=vg(log2))
        time.sleep(12.0)
        answered = 0
        xid = 100
        for k, i in enumerate(corpus("dhcp", args["seed"], n, d)):
            pl = bytes.fromhex(i["hex"])[:1450]
            sb.client.send(dhcplib.frame(bytes([2, 0x44, 0, 0, 0, 9]), pl))
            leg.eval()
            leg.cls("dhcp|%s" % i["how"].split()[0])
            if k % 40 == 0:
                xid += 2
                mac = bytes([2, 0x77, 0, 0, 0, k & 0xFF])
                fr, off = dhcplib.exchange(sb.client, mac, 1, xid, options=[(55, bytes([1, 3, 6, 51])), (12, b"vg")], wait=15.0)
                if off:
                    answered += 1
                    opts = [(50, bytes(int(x) for x in off["yiaddr"].split("."))), (54, bytes([10, 77, 0, 1]))]
                    dhcplib.exchange(sb.client, mac, 3, xid + 1, options=opts, wait=15.0)
        leg.count("dhcp_exchanges_answered_under_valgrind", answered)
        time.sleep(2.0)
        p2.stop()
        time.sleep(0.5)
        for (name, logf) in (("erbium-dns", log1), ("erbium-dhcp", log2)):
            errs, text = errors(logf)
            if errs is None:
                leg.inconclusive("no valgrind log for %s" % name)
                continue
            leg.count("memcheck_reports_%s" % name, len(errs))
            for (head, frame, block) in errs:
                kind = re.sub(r"\d+", "#", head)[:60]
                fr = re.sub(r"\s*\(.*", "", frame)[:80]
                leg.violation("C05/memcheck/%s/%s/%s" % (name, kind, fr), block, {"engine": "memcheck", "process": name})
        if ok < 8 or answered < 3:
            leg.inconclusive("workload did not get through under valgrind (dns ok=%d, dhcp answered=%d)" % (ok, answered))
        leg.sample({"processes": ["erbium-dns", "erbium-dhcp"], "inputs_each": n, "suppressions": ["sendmsg(msg.msg_name) uninitialised padding"]})
    except base.Inconclusive as e:
        leg.inconclusive(str(e))
    finally:
        for u in ups:
            u.stop()
        if sb:
            sb.close()
    leg.write(args)


if __name__ == "__main__":
    main()
