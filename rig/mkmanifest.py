#!/usr/bin/python3
"""Regenerate /verif/MANIFEST.json from rig/legs.py (single source of truth for the checks)."""
import json
import os
import subprocess
import sys

ROOT = os.path.dirname(os.path.dirname(os.path.abspath(__file__)))
sys.path.insert(0, os.path.join(ROOT, "rig"))
import legs  # noqa: E402

ALL = ["C%02d" % i for i in range(1, 21)]


def hook_commits():
    try:
        out = subprocess.run(["git", "-C", "/repo", "log", "--format=%H %s"], stdout=subprocess.PIPE, text=True).stdout
    except OSError:
        return []
    return [l.split()[0] for l in out.splitlines() if " verif hook" in l]


def main():
    checks = []
    for pid in ALL:
        p = legs.PROPERTIES.get(pid)
        if not p:
            continue
        checks.append({
            "property_id": pid,
            "quick_cmd": "./check %s --tier quick" % pid,
            "thorough_cmd": "./check %s --tier thorough" % pid,
            "evidence_file": "/verif/evidence/%s.json" % pid,
            "replay_cmd_template": "./check %s --replay {path}" % pid,
            "engine": "+".join(sorted({l.get("engine", "?") for l in p["legs"]})),
            "level_claimed": {
                "category": p["level"],
                "text": p.get("level_text", "runtime monitoring: held on the executions this run produced, nothing more"),
                "design_ref": p.get("design_ref", "DESIGN.md section 4, " + pid),
            },
            "level_note": p.get("level_note", "; ".join(p.get("assumptions", [])) or "reference models and codecs in harness/ are the trusted base"),
            "technique": p.get("technique", "runtime monitoring: reference-model monitor over generated executions of the real code"),
        })
    na = [{"property_id": pid, "reason": legs.NOT_APPLICABLE.get(pid, "check not built yet")}
          for pid in ALL if pid not in legs.PROPERTIES]
    m = {
        "version": 1,
        "setup_cmd": "./setup.sh",
        "hooks": {
            "guard": "cargo feature verif-hooks on erbium-core (off by default)",
            "enable": "cargo build --features erbium-core/verif-hooks (binaries) and the path dependency erbium-core[verif-hooks] of /verif/harness",
            "baseline_off_cmd": "cd /repo && cargo test --workspace --no-fail-fast --offline",
            "source_commits": hook_commits(),
            "add_only": True,
        },
        "engines": [
            {"name": "vh", "path": "/verif/harness", "serves_properties": sorted(legs.PROPERTIES.keys()),
             "kind_free_text": "Rust harness linking erbium-core with verif-hooks: generated workloads, panic/overflow observer, watchdog, reference models and codecs"},
            {"name": "rig", "path": "/verif/rig", "serves_properties": sorted(p for p, v in legs.PROPERTIES.items() if any(l.get("needs_bins") for l in v["legs"])),
             "kind_free_text": "Python end-to-end rig: real erbium binaries in private network+mount namespaces, scripted upstream DNS, raw-frame clients, event-log checkers"},
        ],
        "checks": checks,
        "not_applicable": na,
        "notes": "All checks are runtime monitoring (one family of technique). Verdicts are three-valued; exit 2 = inconclusive, never a VIOLATION line. Known findings live in /verif/known_findings.json.",
    }
    json.dump(m, open(os.path.join(ROOT, "MANIFEST.json"), "w"), indent=1)
    print("MANIFEST.json: %d checks, %d not claimed" % (len(checks), len(na)))


if __name__ == "__main__":
    main()
