#!/usr/bin/python3
"""C05 end-to-end leg: hostile datagrams, TCP frames and raw frames against the real erbium,
erbium-dns, erbium-dhcp and erbium-lldp processes; after every batch a well-formed request must
still be answered, no panic may appear on stderr and the process must be alive."""
import json
import os
import random
import socket
import struct
import sys
import time

sys.path.insert(0, os.path.dirname(os.path.abspath(__file__)))
import base  # noqa: E402
import dhcplib  # noqa: E402
import dnslib  # noqa: E402

CONF_FULL = """---
addresses: [10.77.0.0/24, 'fd77::/64']
api-listeners: ['127.0.0.1:9968']
dns-listeners: ['127.0.0.53:53', '[::]:5301']
dns-routes:
  - domain-suffixes: ['']
    type: forward
    dns-servers: ['127.0.1.1']
router-advertisements:
  vs0:
    lifetime: 30m
    prefixes:
      - prefix: fd77::/64
dhcp-policies:
  - match-subnet: 10.77.0.0/24
    apply-range: { start: 10.77.0.10, end: 10.77.0.250 }
    apply-routes:
      - { prefix: 10.0.0.0/8, next-hop: 10.77.0.1 }
"""


def corpus(handler, seed, n, d):
    path = os.path.join(d, "corpus-%s.jsonl" % handler)
    rc, out = base.run_vh(["dump-corpus", "--handler", handler, "--seed", str(seed), "--n", str(n), "--out", path])
    if rc != 0:
        raise base.Inconclusive("corpus generation failed: %s" % out[-300:])
    return [json.loads(l) for l in open(path) if l.strip()]


def main():
    base.enter_namespaces()
    args = base.parse_args()
    thorough = args["tier"] == "thorough"
    rnd = random.Random(args["seed"] * 65537 + 5)
    N = 6000 if thorough else 500
    leg = base.Leg(
        "c05-services-e2e", "C05",
        "the same hostile input classes as the in-process leg (systematic boundary mutants, grammar-built hostile packets, havoc, "
        "random) delivered to the real processes: DHCP as broadcast UDP frames over a veth pair (incl. hardware-address lengths 0..255), "
        "DNS as UDP datagrams and TCP frames plus hostile upstream replies to well-formed queries, ICMPv6 RS/RA payloads over the veth, "
        "LLDP frames of every length 14..1500 and hostile TLVs; oracle per batch: no 'panicked at' on stderr, process alive, and a "
        "well-formed request (DISCOVER, query, router solicitation) is answered afterwards; distinct = (service, input kind, batch outcome)", floor=200)
    sb = None
    ups = []
    try:
        sb = dhcplib.ErbiumSandbox("c05")
        d = sb.dir
        hostile_replies = corpus("dns-upstream-reply", args["seed"], N, d)
        hr_idx = [0]

        def script(qn, proto, nth, q):
            if qn.startswith("ok"):
                return [("reply", dnslib.build_reply(q, answers=[(qn, 1, 0, bytes([10, 1, 1, 1]))]), 0)]
            if qn.startswith("mixttl"):
                # well-formed, but its additional record lives one second while the answer lives a minute
                return [("reply", dnslib.build_reply(q, answers=[(qn, 1, 60, bytes([10, 1, 1, 3]))], authority=[(qn, 2, 30, dnslib.enc_name("ns." + qn))],
                                                     additional=[("ns." + qn, 1, 1, bytes([10, 1, 1, 4]))]), 0)]
            if qn.startswith("slow"):
                # a well-formed reply, merely very late (12 s): longer than any patience a forwarder may have
                return [("reply", dnslib.build_reply(q, answers=[(qn, 1, 0, bytes([10, 1, 1, 2]))]), 12.0)] if nth == 0 else [("drop",)]
            # a hostile upstream: the reply is a hostile packet with the query's id (and question where it fits)
            h = bytes.fromhex(hostile_replies[hr_idx[0] % len(hostile_replies)]["hex"])
            hr_idx[0] += 1
            if len(h) < 2:
                h = h + b"\0\0"
            return [("reply", h, 0)]

        ups.append(dnslib.Upstream("127.0.1.1", script, name="u1"))
        p = sb.start("erbium", CONF_FULL, wait_http=("127.0.0.1", 9968), rust_log="warn")
        time.sleep(0.5)
        xid = [5000]

        def health(service, kind, batchno):
            """A well-formed request must be answered; returns True if healthy."""
            ok = True
            replay = {"engine": "c05-e2e", "service": service, "input_kind": kind, "batch": batchno}
            if service == "dhcp":
                xid[0] += 1
                # two probe clients, taking turns: they hold their leases from the first batches on, so a pool drained by
                # the many distinct (mutated) clients among the hostile inputs cannot make a healthy server look dead
                mac = bytes([2, 0x55, 0, 0, batchno & 1, 1])
                fr, off = dhcplib.exchange(sb.client, mac, 1, xid[0], options=[(55, bytes([1, 3, 6, 51]))], wait=3.0)
                ok = off is not None
            elif service == "dns":
                rs = dnslib.udp_query(("127.0.0.53", 53), dnslib.build_query(batchno & 0xFFFF, "ok%d.c05.test" % batchno, edns=1232), timeout=4.0)
                ok = bool(rs) and dnslib.parse(rs[0][0]).rcode == 0
                r, err = dnslib.tcp_query(("127.0.0.53", 53), dnslib.build_query(7, "oktcp%d.c05.test" % batchno, edns=1232), timeout=5.0)
                ok = ok and r is not None and dnslib.parse(r).rcode == 0
            elif service == "radv":
                ok = solicit() is not None
            leg.eval()
            pan = p.panics()
            alive = p.alive()
            leg.cls("%s|%s|%s" % (service, kind, "healthy" if ok and alive else "unhealthy"))
            if not alive:
                leg.violation("C05/service-died/%s" % service, p.text()[-400:], replay)
                return False
            if not ok:
                leg.violation("C05/valid-request-unanswered-after-hostile-input/%s" % service, "batch %d of %s inputs" % (batchno, kind), replay)
            return ok

        seen_panics = set()

        def note_panics(service, inputs):
            for line in p.panics():
                if line in seen_panics:
                    continue
                seen_panics.add(line)
                leg.violation("C05/panic/%s/%s" % (service, base.panic_signature(line)), line.strip(),
                              {"engine": "c05-e2e", "service": service, "recent_inputs": [i["hex"][:400] for i in inputs[-8:]], "how": [i["how"] for i in inputs[-8:]]})

        # ---------------------------------------------------------------- DHCP over the veth
        inputs = corpus("dhcp", args["seed"], N, d)
        # hardware-address lengths below 6 on otherwise perfect DISCOVERs
        for hl in [0, 1, 5, 7, 16, 17, 255]:
            pl = dhcplib.dhcp_payload(1, bytes([2, 0x66, 0, 0, 0, hl]), 4000 + hl, options=[(55, bytes([1, 3, 6]))], hlen=hl)
            inputs.insert(rnd.randrange(len(inputs)), {"hex": pl.hex(), "how": "valid DISCOVER with hlen=%d" % hl})
        # boundary datagram sizes, zero first
        for ln in [0, 1, 2, 3, 4, 43, 44, 235, 236, 239, 240, 241]:
            inputs.insert(rnd.randrange(len(inputs)), {"hex": (bytes([1, 1, 6, 0]) + bytes(300))[:ln].hex(), "how": "datagram of %d octets" % ln})
        for b in range(0, len(inputs), 50):
            batch = inputs[b:b + 50]
            for i in batch:
                pl = bytes.fromhex(i["hex"])
                if len(pl) > 1450:
                    pl = pl[:1450]
                sb.client.send(dhcplib.frame(bytes([2, 0x44, 0, 0, 0, 9]), pl))
                leg.eval()
            sb.client.recv_frames(0.05)
            time.sleep(0.05)
            note_panics("dhcp", batch)
            health("dhcp", "mixed", b // 50)
        leg.count("dhcp_inputs", len(inputs))
        # ---------------------------------------------------------------- DNS queries (UDP + TCP) and hostile upstream replies
        inputs = corpus("dns-query", args["seed"], N, d)
        for ln in [0, 0, 1, 2, 11, 12, 13, 16, 17]:
            inputs.insert(rnd.randrange(len(inputs)), {"hex": (bytes([0, 9, 1, 0, 0, 1, 0, 0, 0, 0, 0, 0, 1, 97, 0, 0, 1, 0, 1]))[:ln].hex(), "how": "datagram / TCP frame of %d octets" % ln})
        us = socket.socket(socket.AF_INET, socket.SOCK_DGRAM)
        import threading
        slow_threads = [threading.Thread(target=lambda: dnslib.tcp_query(("127.0.0.53", 53), dnslib.build_query(77, "slowtcp.c05.test", edns=1232), timeout=30.0)),
                        threading.Thread(target=lambda: dnslib.udp_query(("127.0.0.53", 53), dnslib.build_query(78, "slowudp.c05.test", edns=1232), timeout=30.0))]
        for b in range(0, len(inputs), 50):
            batch = inputs[b:b + 50]
            for k, i in enumerate(batch):
                data = bytes.fromhex(i["hex"])
                leg.eval()
                if len(data) < 3:
                    for dst in (("127.0.0.53", 53), ("127.0.0.1", 5301)):
                        try:
                            us.sendto(data, dst)
                        except OSError:
                            pass
                if k % 3 == 2 or len(data) < 3:
                    try:
                        ts = socket.create_connection(("127.0.0.53", 53), timeout=2)
                        ts.sendall(struct.pack(">H", len(data)) + data)
                        ts.settimeout(0.2)
                        try:
                            ts.recv(65535)
                        except OSError:
                            pass
                        ts.close()
                    except OSError:
                        pass
                else:
                    try:
                        us.sendto(data[:60000], ("127.0.0.53", 53) if k % 2 else ("127.0.0.1", 5301))
                    except OSError:
                        pass
            # well-formed queries answered by a hostile upstream
            for k in range(10):
                q = dnslib.build_query(rnd.randrange(65536), "h%d-%d.c05.test" % (b, k), edns=1232)
                try:
                    us.sendto(q, ("127.0.0.53", 53))
                except OSError:
                    pass
                leg.eval()
            time.sleep(0.15)
            note_panics("dns", batch)
            health("dns", "mixed", b // 50)
        us.close()
        # a reply whose records have very different lifetimes, asked again after the shortest one ran out
        for k_ in range(3):
            dnslib.udp_query(("127.0.0.53", 53), dnslib.build_query(90 + k_, "mixttl%d.c05.test" % k_, edns=1232), timeout=4.0)
        # two queries whose (well-formed) upstream replies take 12 s, with nothing else going on
        for t_ in slow_threads:
            t_.start()
        time.sleep(2.3)
        mix_ok = 0
        for k_ in range(3):
            rs_ = dnslib.udp_query(("127.0.0.53", 53), dnslib.build_query(95 + k_, "mixttl%d.c05.test" % k_, edns=1232), timeout=4.0)
            mix_ok += 1 if rs_ and dnslib.parse(rs_[0][0]).rcode == 0 else 0
            r_, err_ = dnslib.tcp_query(("127.0.0.53", 53), dnslib.build_query(98 + k_, "mixttl%d.c05.test" % k_, edns=1232), timeout=4.0)
            mix_ok += 1 if r_ is not None and dnslib.parse(r_).rcode == 0 else 0
        leg.eval()
        leg.cls("dns|repeat-after-shortest-ttl|%s" % ("answered" if mix_ok == 6 else "unanswered"))
        note_panics("dns", [{"how": "repeat of a question whose reply had records of very different lifetimes", "hex": ""}])
        if mix_ok < 6:
            leg.violation("C05/valid-request-unanswered-after-hostile-input/dns", "%d of 6 repeated questions answered 2.3 s after replies with a 1 s additional record" % mix_ok,
                          {"engine": "c05-e2e", "service": "dns", "input_kind": "repeat-after-shortest-ttl"})
        for t_ in slow_threads:
            t_.join(timeout=40)
        time.sleep(2.5)
        time.sleep(0.5)
        note_panics("dns", [{"how": "upstream reply 12 s late (TCP and UDP)", "hex": ""}])
        health("dns", "after-very-late-upstream-replies", 9000)
        leg.count("dns_inputs", len(inputs))
        leg.count("hostile_upstream_replies", hr_idx[0])
        # ---------------------------------------------------------------- ICMPv6 over the veth
        with sb.cns:
            rs_sock = socket.socket(socket.AF_INET6, socket.SOCK_RAW, socket.IPPROTO_ICMPV6)
        rs_sock.setsockopt(socket.IPPROTO_IPV6, socket.IPV6_MULTICAST_HOPS, 255)
        rs_sock.setsockopt(socket.IPPROTO_IPV6, socket.IPV6_UNICAST_HOPS, 255)
        ifidx = int(sb.cns.run("cat /sys/class/net/vc0/ifindex").strip())

        def solicit():
            rs = bytes([133, 0, 0, 0, 0, 0, 0, 0, 1, 1, 2, 0, 0x5e, 0x10, 0, 2])
            try:
                rs_sock.sendto(rs, ("ff02::2", 0, 0, ifidx))
            except OSError:
                return None
            rs_sock.settimeout(0.3)
            end = time.monotonic() + 3.0
            while time.monotonic() < end:
                try:
                    data, frm = rs_sock.recvfrom(65535)
                except OSError:
                    continue
                if data and data[0] == 134:
                    return data
            return None

        if solicit() is None:
            leg.count("radv_not_answering_before_hostile_input", 1)
            leg.inconclusive("router solicitation is not answered even before any hostile input: %s" % p.text()[-300:])
        else:
            inputs = corpus("icmp6", args["seed"], N // 2, d)
            for b in range(0, len(inputs), 50):
                batch = inputs[b:b + 50]
                for i in batch:
                    data = bytes.fromhex(i["hex"])[:1400]
                    if len(data) < 1:
                        continue
                    leg.eval()
                    for dst in (("ff02::2", 0, 0, ifidx), ("fd77::1", 0, 0, 0)):
                        try:
                            rs_sock.sendto(data, dst)
                        except OSError:
                            pass
                time.sleep(0.05)
                note_panics("radv", batch)
                health("radv", "mixed", b // 50)
            leg.count("icmp6_inputs", len(inputs))
        rs_sock.close()
        # ---------------------------------------------------------------- LLDP (own process)
        lp = base.Proc("erbium-lldp", [os.path.join(base.BIN, "erbium-lldp")], d)
        sb.procs.append(lp)
        time.sleep(0.5)
        if not lp.alive():
            leg.inconclusive("erbium-lldp does not start: %s" % lp.text()[-300:])
        else:
            inputs = corpus("lldp", args["seed"], N, d)
            hdr = bytes.fromhex("0180c200000e") + bytes([2, 0x44, 0, 0, 0, 9]) + b"\x88\xcc"
            sent = 0
            # every frame length 14..1500 with a valid prefix
            valid = bytes.fromhex(inputs[0]["hex"]) if inputs else b""
            for ln in range(14, 1501, 1 if thorough else 7):
                body = (valid + b"\0" * 1500)[:ln - 14]
                sb.client.send(hdr + body)
                sent += 1
            for b in range(0, len(inputs), 100):
                for i in inputs[b:b + 100]:
                    body = bytes.fromhex(i["hex"])[:1486]
                    sb.client.send(hdr + body)
                    sent += 1
                    leg.eval()
                time.sleep(0.05)
                alive = lp.alive()
                leg.eval()
                leg.cls("lldp|mixed|%s" % ("alive" if alive else "dead"))
                if lp.panics() or not alive:
                    for line in lp.panics()[:3]:
                        leg.violation("C05/panic/lldp/%s" % base.panic_signature(line), line.strip(),
                                      {"engine": "c05-e2e", "service": "lldp", "recent_inputs": [i["hex"][:300] for i in inputs[b:b + 100][-8:]]})
                    if not alive:
                        leg.violation("C05/service-died/lldp", lp.text()[-300:], {"engine": "c05-e2e", "service": "lldp"})
                    break
            leg.count("lldp_frames", sent)
        leg.sample({"services": ["erbium (dhcp, dns, radv, http)", "erbium-lldp"], "inputs_per_service": N})
    except base.Inconclusive as e:
        leg.inconclusive(str(e))
    finally:
        for u in ups:
            u.stop()
        if sb:
            sb.close()
    leg.write(args)


if __name__ == "__main__":
    main()
