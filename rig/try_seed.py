#!/usr/bin/python3
"""Apply one seeded change to /repo, run the registered check(s), undo the change.
usage: rig/try_seed.py <seed-dir> <property> [--tier quick|thorough] [--also C0x,...]"""
import json
import os
import subprocess
import sys
import time


def main():
    d, prop = sys.argv[1], sys.argv[2]
    tier = "quick"
    also = []
    a = sys.argv[3:]
    while a:
        if a[0] == "--tier":
            tier = a[1]
            a = a[2:]
        elif a[0] == "--also":
            also = a[1].split(",")
            a = a[2:]
        else:
            a = a[1:]
    patch = os.path.join(d, "patch.diff")
    st = subprocess.run(["git", "-C", "/repo", "status", "--porcelain"], stdout=subprocess.PIPE, text=True).stdout.strip()
    if st:
        print("REFUSING: /repo is not clean:\n" + st)
        return 2
    chk = subprocess.run(["git", "-C", "/repo", "apply", "--check", patch], stdout=subprocess.PIPE, stderr=subprocess.STDOUT, text=True)
    if chk.returncode != 0:
        print("PATCH DOES NOT APPLY: " + chk.stdout)
        return 2
    subprocess.run(["git", "-C", "/repo", "apply", patch], check=True)
    out = {"seed": d, "property": prop, "tier": tier, "results": {}}
    try:
        for p in [prop] + also:
            t0 = time.time()
            r = subprocess.run(["./check", p, "--tier", tier], cwd="/verif", stdout=subprocess.PIPE, stderr=subprocess.STDOUT, text=True,
                               env=dict(os.environ, VERIF_SEED=os.environ.get("VERIF_SEED", "1"), VERIF_EVIDENCE_DIR="/verif/.build/seed-evidence"))
            lines = [l for l in r.stdout.splitlines() if l.startswith(("VIOLATION", "  violation", "RESULT", "INCONCLUSIVE", "KNOWN"))]
            out["results"][p] = {"exit": r.returncode, "wall_s": round(time.time() - t0, 1), "lines": [l[:500] for l in lines]}
            print("== %s on %s: exit %d in %.0fs" % (p, d, r.returncode, time.time() - t0))
            for l in lines:
                print("   " + l[:300])
    finally:
        subprocess.run(["git", "-C", "/repo", "checkout", "--", "."], check=True)
        subprocess.run(["git", "-C", "/repo", "clean", "-fdq", "crates"], check=False)
    # leave .build in step with the restored tree
    subprocess.run(["cargo", "build", "--offline", "--manifest-path", "/repo/Cargo.toml", "--workspace", "--bins", "--features",
                    "erbium-core/verif-hooks", "--target-dir", "/verif/.build/repo"], stdout=subprocess.DEVNULL, stderr=subprocess.DEVNULL,
                   env=dict(os.environ, CARGO_NET_OFFLINE="true"))
    subprocess.run(["cargo", "build", "--offline", "--manifest-path", "/verif/harness/Cargo.toml", "--target-dir", "/verif/.build/harness"],
                   stdout=subprocess.DEVNULL, stderr=subprocess.DEVNULL, env=dict(os.environ, CARGO_NET_OFFLINE="true"))
    json.dump(out, open(os.path.join(d, "check-result-%s.json" % tier), "w"), indent=1)
    return 0


if __name__ == "__main__":
    sys.exit(main())
