#!/usr/bin/python3
"""Thorough-tier sanitizer leg: the pure codec subset of the harness under the Miri interpreter.
Miri is the oracle: undefined behaviour aborts the interpreter with a diagnostic, which becomes a
violation whose signature names the first frame inside /repo."""
import json
import os
import re
import subprocess
import sys

sys.path.insert(0, os.path.dirname(os.path.abspath(__file__)))
import base  # noqa: E402


def main():
    args = base.parse_args()
    n = int(args.get("n", 0)) or (400 if args["tier"] == "thorough" else 40)
    leg = base.Leg("miri-codec-subset", "C05", "pure codec subset under Miri", floor=20)
    out = os.path.join(base.scratch_dir("miri"), "leg.json")
    env = dict(os.environ, CARGO_NET_OFFLINE="true", MIRIFLAGS="-Zmiri-disable-isolation", RUST_BACKTRACE="0")
    cmd = ["cargo", "+nightly", "miri", "run", "--offline", "--manifest-path", os.path.join(base.ROOT, "harness", "Cargo.toml"),
           "--target-dir", os.path.join(base.BUILD, "miri"), "--", "miri-subset", "--n", str(n), "--seed", str(args["seed"]),
           "--tier", args["tier"], "--out", out]
    try:
        p = subprocess.run(cmd, env=env, stdout=subprocess.PIPE, stderr=subprocess.STDOUT, text=True, timeout=6000)
    except subprocess.TimeoutExpired:
        leg.inconclusive("Miri run exceeded its watchdog")
        leg.write(args)
        return
    text = p.stdout
    if "Undefined Behavior" in text or "error: unsupported operation" in text:
        m = re.search(r"(Undefined Behavior|unsupported operation): ([^\n]+)", text)
        frames = re.findall(r"(/repo/crates/[^\s:]+):\d+", text)
        site = frames[0].split("crates/", 1)[1] if frames else "outside-repo"
        kind = "undefined-behaviour" if "Undefined Behavior" in text else "unsupported"
        if kind == "unsupported":
            leg.inconclusive("Miri cannot interpret an operation the subset reached: %s" % (m.group(2) if m else ""))
        else:
            leg.eval()
            leg.violation("C05/miri/%s/%s" % (kind, site), (m.group(0) if m else "") + "\n" + text[-1500:], {"engine": "miri", "seed": args["seed"], "n": n})
    else:
        try:
            rep = json.load(open(out))
            leg.rule = rep.get("rule", "")
            leg.merge_report(rep)
        except (OSError, ValueError):
            leg.inconclusive("Miri run produced no report (exit %s): %s" % (p.returncode, text[-600:]))
    base.cleanup_dir(os.path.dirname(out))
    leg.write(args)


if __name__ == "__main__":
    main()
