#!/usr/bin/python3
"""C16 end-to-end leg: REFUSED volume per source is bounded, quiet sources still hear REFUSED,
a server cookie exempts only the client it was issued to."""
import json
import os
import select
import socket
import struct
import sys
import time

sys.path.insert(0, os.path.dirname(os.path.abspath(__file__)))
import base  # noqa: E402
import dnslib  # noqa: E402

CONF = """---
dns-listeners: ['127.0.0.53:53', '127.0.0.54:53', '127.0.0.55:5353']
acls:
  - match-subnets: ['127.0.0.0/24']
    apply-access: ['dns-recursion']
dns-routes:
  - domain-suffixes: ['']
    type: forward
    dns-servers: ['127.0.1.1']
"""
REFUSED = 5
SERVER = ("127.0.0.53", 53)


SERVERS = [("127.0.0.53", 53), ("127.0.0.54", 53), ("127.0.0.55", 5353)]


def flood(src_ip, n, duration, cookie=None, qprefix="f", servers=None, long_names=False, extra_opts=b""):
    """Serial flood from one source address, spread over the given listener addresses (the bound is per source, whichever
    of the server's addresses it talks to); returns list of (t, len, rcode) for responses."""
    servers = servers or [SERVER]
    # long names make each REFUSED (which echoes the question) some 270 octets: 1000-token buckets then pay for three
    pad = ("x" * 60 + ".") * 3 if long_names else ""
    s = socket.socket(socket.AF_INET, socket.SOCK_DGRAM)
    s.bind((src_ip, 0))
    s.setblocking(False)
    got = []
    sent = []
    t0 = time.monotonic()
    gap = duration / max(n, 1)
    for i in range(n):
        opts = extra_opts
        if cookie:
            opts = struct.pack(">HH", 10, len(cookie)) + cookie + extra_opts
        q = dnslib.build_query(i & 0xFFFF, "%s%d.%srefused.test" % (qprefix, i, pad), edns=1232, options=opts)
        try:
            s.sendto(q, servers[i % len(servers)])
            sent.append((time.monotonic(), len(q)))
        except OSError:
            pass
        end = time.monotonic() + gap
        while True:
            left = end - time.monotonic()
            r, _, _ = select.select([s], [], [], max(left, 0))
            if not r:
                break
            try:
                d, _ = s.recvfrom(65535)
            except OSError:
                break
            try:
                rc = dnslib.parse(d).rcode & 0xF
            except Exception:  # noqa: BLE001
                rc = -1
            got.append((time.monotonic(), len(d), rc))
    # drain stragglers
    end = time.monotonic() + 1.0
    while time.monotonic() < end:
        r, _, _ = select.select([s], [], [], 0.2)
        if r:
            try:
                d, _ = s.recvfrom(65535)
                rc = dnslib.parse(d).rcode & 0xF
                got.append((time.monotonic(), len(d), rc))
            except Exception:  # noqa: BLE001
                pass
    s.close()
    return sent, got, t0


def main():
    base.enter_namespaces()
    args = base.parse_args()
    thorough = args["tier"] == "thorough"
    leg = base.Leg(
        "c16-refused-rate-e2e", "C16",
        "real erbium-dns (three UDP listeners) with an ACL that refuses 127.0.9.0/24: serial floods of UDP queries from refused sources to one listener and spread over all three (with and without "
        "cookies), every REFUSED datagram received is logged with time and size; every window of the log is checked against "
        "2B + 2R*(dt+1) octets (two hash buckets per source; B, R read from the code's constants through the harness); fresh source "
        "addresses that were silent so far must receive REFUSED; (thorough) the flooded source, silent for B/R seconds, must hear REFUSED again; a bare client cookie exempts nobody; a server cookie obtained over TCP exempts its owner and nobody else; "
        "distinct = (phase, outcome)", floor=8)
    d = base.scratch_dir("c16")
    procs, ups = [], []
    try:
        base.setup_loopback()
        rc, out = base.run_vh(["consts"])
        try:
            consts = json.loads(out.strip().splitlines()[-1])
            B, R = consts["bucket_capacity_tokens"], consts["tokens_per_second"]
        except (ValueError, KeyError, IndexError):
            raise base.Inconclusive("cannot read bucket constants: %s" % out[-200:])
        # the upstream answers name errors, except for names beginning with "rr": those it REFUSES (and the server relays that)
        ups.append(dnslib.Upstream("127.0.1.1", lambda qn, proto, nth, q: [("reply", dnslib.build_reply(q, rcode=5 if qn.startswith("rr") else 3), 0)], name="u1"))
        conf_path = os.path.join(d, "erbium.conf")
        open(conf_path, "w").write(CONF)
        p = base.Proc("erbium-dns", [os.path.join(base.BIN, "erbium-dns"), conf_path], d, rust_log="error")
        procs.append(p)
        if not dnslib.wait_port("127.0.0.53", 53):
            raise base.Inconclusive("erbium-dns did not start: %s" % p.text()[-400:])
        leg.sample({"burst_B": B, "rate_R": R})

        # sanity: refused clients really are refused (TCP is not rate limited)
        r, err = dnslib.tcp_query(SERVER, dnslib.build_query(1, "tcp.refused.test", edns=1232), src=("127.0.9.1", 0))
        leg.eval()
        if r is None or (dnslib.parse(r).rcode & 0xF) != REFUSED:
            raise base.Inconclusive("refused source does not get REFUSED over TCP (%s)" % err)

        def check_windows(name, got, src):
            ref = [(t, n) for (t, n, rc) in got if rc == REFUSED]
            leg.count("refused_datagrams_%s" % name, len(ref))
            leg.count("refused_octets_%s" % name, sum(n for _, n in ref))
            worst = None
            for i in range(len(ref)):
                tot = 0
                for j in range(i, len(ref)):
                    tot += ref[j][1]
                    dt = ref[j][0] - ref[i][0]
                    bound = 2 * B + 2 * R * (dt + 1) + 600  # + one maximal charge of slack for the read-then-write race
                    if tot > bound and worst is None:
                        worst = (tot, bound, dt)
                if len(ref) > 800:
                    break
            leg.eval()
            leg.cls("%s|%s" % (name, "bounded" if worst is None else "unbounded"))
            if worst:
                leg.violation("C16/refused-volume-exceeds-bound/%s" % name,
                              "%d octets of REFUSED to %s within %.2f s; bound 2B+2R(dt+1)+slack = %d" % (worst[0], src, worst[2], worst[1]),
                              {"engine": "c16-e2e", "phase": name, "log": ref[:200]})
            return ref

        # ---- phase 1: flood from one refused source
        n1 = 1500 if thorough else 500
        sent, got, _ = flood("127.0.9.1", n1, 20.0 if thorough else 8.0)
        ref1 = check_windows("flood-no-cookie", got, "127.0.9.1")
        # the same from another source, spread over all three listener sockets of the server
        sent, got, _ = flood("127.0.9.3", n1, 20.0 if thorough else 8.0, qprefix="m", servers=SERVERS, long_names=True)
        check_windows("flood-over-three-listeners", got, "127.0.9.3")
        leg.count("flood_queries", len(sent))
        # queries LARGER than the REFUSED they draw (60 octets of EDNS padding the server does not echo): no amplification, but
        # the bound is on what is sent towards a source, not on the ratio
        sent, got, _ = flood("127.0.9.4", n1, 10.0 if thorough else 5.0, qprefix="pad", extra_opts=struct.pack(">HH", 12, 60) + bytes(60))
        check_windows("flood-padded-queries", got, "127.0.9.4")
        # a PERMITTED source whose queries the upstream refuses: the REFUSED it is sent (relayed) counts like any other
        sent, got, _ = flood("127.0.0.77", n1, 10.0 if thorough else 5.0, qprefix="rr")
        check_windows("flood-relayed-refused", got, "127.0.0.77")
        flood_end = time.monotonic()
        # a client cookie alone (no server part) was never issued by anybody: not exempt
        sent, got, _ = flood("127.0.9.2", 300 if thorough else 150, 3.0, cookie=bytes(range(8)), qprefix="cc")
        check_windows("client-cookie-only", got, "127.0.9.2")
        # ---- phase 2: quiet sources (never seen before) each send one query
        heard = 0
        quiet = ["127.0.9.%d" % i for i in (range(11, 21) if thorough else range(11, 16))]
        for src in quiet:
            rs = dnslib.udp_query(SERVER, dnslib.build_query(7, "quiet.refused.test", edns=1232), src=(src, 0), timeout=2.0)
            leg.eval()
            ok = bool(rs) and (dnslib.parse(rs[0][0]).rcode & 0xF) == REFUSED
            heard += 1 if ok else 0
            leg.cls("quiet|%s" % ("refused" if ok else "silence"))
        leg.count("quiet_sources_answered", heard)
        leg.count("quiet_sources", len(quiet))
        if heard < len(quiet) - 1:
            leg.violation("C16/quiet-source-hears-nothing",
                          "%d of %d sources that had never sent anything received REFUSED (the two-bucket hashing admits at most rare collisions)" % (heard, len(quiet)),
                          {"engine": "c16-e2e", "phase": "quiet", "sources": quiet, "burst_B": B, "rate_R": R})
        # ---- phase 3: cookies
        cc = bytes(range(1, 9))
        opts = struct.pack(">HH", 10, 8) + cc
        r, err = dnslib.tcp_query(SERVER, dnslib.build_query(2, "cookie.refused.test", edns=1232, options=opts), src=("127.0.9.30", 0))
        server_cookie = None
        if r is not None:
            pr = dnslib.parse(r)
            if pr.opt:
                for code, val in dnslib.opt_options(pr.opt["rdata"]):
                    if code == 10 and len(val) > 8 and val[:8] == cc:
                        server_cookie = val
        leg.eval()
        if server_cookie is None:
            leg.count("no_server_cookie_issued", 1)
            leg.cls("cookie|not-issued")
        else:
            nq = 200 if thorough else 60
            sent, got, _ = flood("127.0.9.30", nq, 3.0, cookie=server_cookie, qprefix="ck")
            okc = len([1 for (_, _, rc) in got if rc == REFUSED])
            leg.eval()
            leg.count("cookie_owner_queries", len(sent))
            leg.count("cookie_owner_answered", okc)
            leg.cls("cookie-owner|%s" % ("all-answered" if okc == len(sent) else "dropped"))
            # (the property says when a cookie MAY exempt -- "only if" -- not that it must: a server that merely raises the
            # allowance of a verified client, or none, is within it; counted, not judged)
            # the same cookie replayed from another address must not be exempt: its REFUSED volume stays bounded
            sent, got, _ = flood("127.0.9.31", 400 if thorough else 200, 4.0, cookie=server_cookie, qprefix="st")
            check_windows("stolen-cookie", got, "127.0.9.31")
            # a cookie with a corrupted server part
            bad = server_cookie[:-1] + bytes([server_cookie[-1] ^ 1])
            sent, got, _ = flood("127.0.9.30", 200, 3.0, cookie=bad, qprefix="bd")
            check_windows("corrupted-cookie", got, "127.0.9.30")
        # ---- phase 4 (thorough): the flooded source stays silent for the refill period B/R, then must hear REFUSED again,
        # however many of its queries were dropped during the flood (dropped queries must not run up a debt)
        if thorough:
            period = B / float(R)
            left = flood_end + period + 5.0 - time.monotonic()
            if left > 0:
                time.sleep(left)
            rs = dnslib.udp_query(SERVER, dnslib.build_query(9, "afteridle.refused.test", edns=1232), src=("127.0.9.1", 0), timeout=3.0)
            leg.eval()
            ok = bool(rs) and (dnslib.parse(rs[0][0]).rcode & 0xF) == REFUSED
            leg.cls("flooded-then-idle|%s" % ("refused" if ok else "silence"))
            leg.count("idle_period_waited_s", int(period + 5))
            if not ok:
                leg.violation("C16/quiet-source-gets-silence/after-flood",
                              "127.0.9.1 sent %d queries in the flood (%d answered), then nothing for %.0f s (refill period %.0f s); its next query got no REFUSED" % (n1, len(ref1), period + 5, period),
                              {"engine": "c16-e2e", "phase": "flooded-then-idle", "burst_B": B, "rate_R": R})
        for line in p.panics():
            leg.violation("C16/handler-panic/%s" % base.panic_signature(line), line.strip(), {"engine": "c16-e2e"})
        if not p.alive():
            leg.violation("C16/service-died", p.text()[-400:], {"engine": "c16-e2e"})
    except base.Inconclusive as e:
        leg.inconclusive(str(e))
    finally:
        for pr_ in procs:
            pr_.stop()
        for u in ups:
            u.stop()
        base.cleanup_dir(d)
    leg.write(args)


if __name__ == "__main__":
    main()
