#!/usr/bin/python3
"""C19 end-to-end leg: configurations that the loader accepts are served by the real erbium-dns
(DNS routing is only reachable with sockets): no panic, every query answered with some rcode."""
import os
import sys
import time

sys.path.insert(0, os.path.dirname(os.path.abspath(__file__)))
import base  # noqa: E402
import dnslib  # noqa: E402

HEAD = "---\ndns-listeners: ['127.0.0.53:53']\n"
CONFIGS = [
    ("forward-route-without-servers", "dns-routes:\n  - domain-suffixes: ['noserver.test']\n    type: forward\n  - domain-suffixes: ['']\n    dns-servers: ['127.0.1.1']\n"),
    ("forward-route-empty-server-list", "dns-routes:\n  - domain-suffixes: ['noserver.test', '']\n    type: forward\n    dns-servers: []\n"),
    ("route-without-type-or-servers", "dns-routes:\n  - domain-suffixes: ['']\n"),
    ("no-routes", "dns-routes: []\n"),
    ("route-without-suffixes", "dns-routes:\n  - type: forward\n    dns-servers: ['127.0.1.1']\n  - domain-suffixes: []\n    type: forge-nxdomain\n"),
    ("odd-suffixes", "dns-routes:\n  - domain-suffixes: ['a b.test', 'under_score.test', '-.test', 'UPPER.Test', 'x.', '%s.test']\n    dns-servers: ['127.0.1.1']\n  - domain-suffixes: ['']\n    type: forge-nxdomain\n" % ("l" * 63)),
    ("null-route-entry-fields", "dns-routes:\n  - domain-suffixes: null\n    dns-servers: null\n"),
    ("v6-upstream", "dns-routes:\n  - domain-suffixes: ['']\n    dns-servers: ['fd00::99']\n"),
    ("empty-acls", "acls: []\ndns-routes:\n  - domain-suffixes: ['']\n    dns-servers: ['127.0.1.1']\n"),
]
NAMES = ["x.noserver.test", "noserver.test", "www.example.com", ".", "UPPER.test", "a.b.c.d.e.f.g.h.i.j.k.test", "x.under_score.test", "l" * 63 + ".test"]


def main():
    base.enter_namespaces()
    args = base.parse_args()
    leg = base.Leg(
        "c19-dns-config-e2e", "C19",
        "DNS configurations the loader accepts (forward route without servers / with an empty list / without type, no routes, routes "
        "without suffixes, odd suffixes, null fields, unreachable IPv6 upstream, empty ACL list) served by the real erbium-dns: every "
        "query (UDP and TCP, names under and outside the odd routes) must be answered with some response code, no panic on stderr, "
        "process alive; plus configuration FILES given as octets (endings inside a UTF-8 character, invalid octets, NUL, BOM, CR LF, empty): started or refused, never a panic; distinct = (configuration, transport, rcode)", floor=20)
    d = base.scratch_dir("c19")
    ups = []
    try:
        base.setup_loopback(v6=["fd00::1"])
        ups.append(dnslib.Upstream("127.0.1.1", lambda qn, proto, nth, q: [("reply", dnslib.build_reply(q, answers=[(qn, 1, 0, bytes([10, 1, 9, 1]))]), 0)], name="u1"))
        # ---- configuration FILES as octets (the file reader sits in front of the loader the in-process leg drives): endings
        # inside a UTF-8 character, invalid octets, NUL, a byte-order mark, CR LF, no final newline, an empty file
        good = (HEAD + CONFIGS[0][1]).encode()
        files = [("ends-after-lead-octet-c3", good + b"# caf\xc3"), ("ends-after-2-of-3", good + b"# \xe2\x82"), ("ends-after-3-of-4", good + b"# \xf0\x9f\x98"),
                 ("ends-after-lead-octet-f4", good + b"\xf4"), ("invalid-octet-ff-inside", good[:40] + b"\xff" + good[40:]), ("continuation-octet-alone", good + b"# \x80\n"),
                 ("nul-inside", good[:30] + b"\x00" + good[30:]), ("byte-order-mark", b"\xef\xbb\xbf" + good), ("crlf", good.replace(b"\n", b"\r\n")),
                 ("no-final-newline", good.rstrip(b"\n")), ("empty", b""), ("only-a-lead-octet", b"\xe2"), ("overlong-encoding", good + b"# \xc0\xaf\n")]
        for (fname, octets) in files:
            cp = os.path.join(d, "file-%s.conf" % fname)
            open(cp, "wb").write(octets)
            p = base.Proc("erbium-dns", [os.path.join(base.BIN, "erbium-dns"), cp], d, rust_log="error")
            try:
                up = False
                t_end = time.monotonic() + 4.0
                while time.monotonic() < t_end and p.alive() and not up:
                    up = dnslib.wait_port("127.0.0.53", 53, timeout=0.3)
                time.sleep(0.1)
                leg.eval()
                pan = p.panics()
                leg.cls("file|%s|%s" % (fname, "panic" if pan else ("served" if up else "rejected")))
                if pan:
                    leg.violation("C19/e2e/config-file-octets-panic-the-loader/%s" % fname, pan[0].strip(), {"engine": "c19-e2e", "file_hex_tail": octets[-24:].hex(), "file": fname})
            finally:
                p.stop()
        for (cname, body) in CONFIGS:
            cp = os.path.join(d, "%s.conf" % cname)
            open(cp, "w").write(HEAD + body)
            p = base.Proc("erbium-dns", [os.path.join(base.BIN, "erbium-dns"), cp], d, rust_log="error")
            try:
                if not dnslib.wait_port("127.0.0.53", 53, timeout=6.0):
                    if p.panics():
                        leg.violation("C19/e2e/panic-at-startup/%s" % cname, p.panics()[0], {"engine": "c19-e2e", "config": HEAD + body})
                        continue
                    if not p.alive() or "Failed to load config" in p.text() or "Invalid Configuration" in p.text():
                        # the process gave up without panicking: the loader said no (whatever words it used)
                        leg.count("configs_rejected_by_loader", 1)
                        leg.cls("%s|rejected" % cname)
                        continue
                    leg.inconclusive("erbium-dns neither started nor rejected %s: %s" % (cname, p.text()[-200:]))
                    continue
                for i, nm in enumerate(NAMES):
                    for transport in ("tcp", "udp"):
                        q = dnslib.build_query(100 + i, nm, edns=1232)
                        if transport == "tcp":
                            r, err = dnslib.tcp_query(("127.0.0.53", 53), q, timeout=25.0 if cname == "v6-upstream" else 6.0)
                        else:
                            rs = dnslib.udp_query(("127.0.0.53", 53), q, timeout=25.0 if cname == "v6-upstream" else 6.0)
                            r, err = (rs[0][0], None) if rs else (None, "no datagram")
                        leg.eval()
                        replay = {"engine": "c19-e2e", "config": HEAD + body, "qname": nm, "transport": transport}
                        if r is None:
                            if cname == "empty-acls" and transport == "udp":
                                leg.count("refused_rate_limited", 1)  # REFUSED over UDP may be rate limited by design
                                continue
                            leg.cls("%s|%s|no-response" % (cname, transport))
                            leg.violation("C19/e2e/accepted-config-query-unanswered/%s" % cname, "%s over %s: %s; stderr: %s" % (nm, transport, err, p.panics()[-1:] or ""), replay)
                        else:
                            leg.cls("%s|%s|rcode%d" % (cname, transport, dnslib.parse(r).rcode & 0xF))
                for line in p.panics()[:2]:
                    leg.violation("C19/e2e/accepted-config-panics-serving-dns/%s" % base.panic_signature(line), "%s: %s" % (cname, line.strip()), {"engine": "c19-e2e", "config": HEAD + body})
                if not p.alive():
                    leg.violation("C19/e2e/service-died/%s" % cname, p.text()[-300:], {"engine": "c19-e2e", "config": HEAD + body})
            finally:
                p.stop()
            leg.count("configs_served", 1)
        leg.sample({"configs": [c for c, _ in CONFIGS], "names": NAMES})
    except base.Inconclusive as e:
        leg.inconclusive(str(e))
    finally:
        for u in ups:
            u.stop()
        base.cleanup_dir(d)
    leg.write(args)


if __name__ == "__main__":
    main()
