#!/bin/bash
# Runs every kept seeded change through the check of its property (quick tier), one after the other
# (each is applied to /repo, checked and undone).  usage: rig/try_all_seeds.sh [tier] [ids...]
cd /verif
tier=${1:-quick}; shift
ids=${@:-$(ls seeded | grep -E '^C[0-9]+[a-z]$')}
for id in $ids; do
  p=${id:0:3}
  /usr/bin/python3 rig/try_seed.py /verif/seeded/$id $p --tier $tier 2>&1 | grep -v "^WARNING" | cut -c1-260 | head -8
done
