#!/usr/bin/python3
"""C08 end-to-end leg: ACLs are enforced first-match on DNS recursion and on every HTTP endpoint
of the real erbium binary (TCP v4/v6, IPv4-mapped through a dual-stack listener, unix socket)."""
import ipaddress
import os
import random
import socket
import struct
import sys
import time

sys.path.insert(0, os.path.dirname(os.path.abspath(__file__)))
import base  # noqa: E402
import dhcplib  # noqa: E402
import dnslib  # noqa: E402

REFUSED = 5
ENDPOINTS = [("/", "http"), ("/metrics", "http-metrics"), ("/api/v1/leases.json", "http-leases"), ("/no/such/path", None)]


def grants(rule, perm):
    a = set(rule.get("access", []))
    if perm == "dns":
        return bool(a & {"dns-recursion", "dhcp-client"})
    if perm == "http":
        if "http" in a:
            return True
        return None if "http-ro" in a else False  # the manual does not say whether http-ro covers the root page
    if perm == "http-metrics":
        return bool(a & {"http-metrics", "http-ro"})
    if perm == "http-leases":
        return bool(a & {"http-leases", "http-ro"})
    raise ValueError(perm)


def contains(prefix, client):
    """client: ("ip", ipaddress object) | ("unix",).  None = unconstrained."""
    if client[0] == "unix":
        return False
    net = ipaddress.ip_network(prefix, strict=False)
    ip = client[1]
    if isinstance(ip, ipaddress.IPv6Address) and ip.ipv4_mapped is not None:
        if net.version == 4:
            return ip.ipv4_mapped in net
        return ip in net
    if net.version != ip.version:
        if net.version == 6 and ip.version == 4:
            mapped = ipaddress.IPv6Address("::ffff:%s" % ip)
            return None if mapped in net else False
        return False
    return ip in net


def first_match(rules, client, perm):
    for r in rules:
        m = True
        if r.get("subnets") is not None:
            res = [contains(s, client) for s in r["subnets"]]
            if any(x is True for x in res):
                m = True
            elif any(x is None for x in res):
                m = None
            else:
                m = False
        if r.get("unix") is not None and (client[0] == "unix") != r["unix"]:
            m = False
        if m is True:
            return grants(r, perm)
        if m is None:
            return None
    return False


def acl_yaml(rules):
    if rules is None:
        return ""
    if not rules:
        return "acls: []\n"
    y = "acls:\n"
    for r in rules:
        lines = []
        if r.get("subnets") is not None:
            lines.append("match-subnets: [%s]" % ", ".join("'%s'" % s for s in r["subnets"]))
        if r.get("unix") is not None:
            lines.append("match-unix: %s" % ("true" if r["unix"] else "false"))
        lines.append("apply-access: [%s]" % ", ".join("'%s'" % a for a in r.get("access", [])))
        y += " - " + lines[0] + "\n" + "".join("   %s\n" % l for l in lines[1:])
    return y


DEFAULT_RULES = [
    {"subnets": ["10.77.0.0/24"], "access": ["dns-recursion", "http", "http-metrics", "http-leases"]},
    {"subnets": ["127.0.0.0/8", "::1/128"], "access": ["dns-recursion", "http", "http-metrics", "http-leases"]},
    {"unix": True, "access": ["http", "http-metrics", "http-leases"]},
]

FIXED_TABLES = [
    None,  # documented defaults derived from `addresses`
    [],
    [{"subnets": ["127.0.0.7/32"], "access": []}, {"subnets": ["127.0.0.0/8"], "access": ["http", "http-metrics", "http-leases", "dns-recursion"]}],
    [{"subnets": ["127.0.0.1/8"], "access": ["http-metrics", "dns-recursion"]}, {"subnets": ["::1/64"], "access": ["http-leases"]}],
    [{"unix": True, "access": ["http"]}, {"unix": False, "subnets": ["::1/128", "fd00::/16"], "access": ["http-leases", "dns-recursion"]}],
    [{"subnets": ["127.0.0.1/32"], "access": ["http"]}, {"subnets": ["127.0.0.7/32"], "access": ["http-leases"]}, {"subnets": ["::1/128"], "access": ["http-metrics"]},
     {"unix": True, "access": ["http-metrics", "http-leases"]}],
    [{"subnets": ["127.0.0.9/32"], "access": ["http", "http-metrics"]}, {"subnets": ["10.77.0.128/25"], "access": ["http-leases", "dhcp-client"]},
     {"access": ["http-metrics"]}],
    # IPv6 prefixes shorter than /96 that contain the IPv4-mapped range: an IPv4 client seen as ::ffff:a.b.c.d is inside them
    [{"subnets": ["::/0"], "access": ["dns-recursion", "http", "http-leases"]}],
    [{"subnets": ["::/64"], "access": ["http-metrics"]}, {"subnets": ["127.0.0.0/8", "::1/128", "fd00::/16"], "access": ["dns-recursion", "http", "http-metrics", "http-leases"]}],
    [{"subnets": ["::ffff:0:0/96"], "access": ["http"]}, {"subnets": ["::/80"], "access": ["dns-recursion", "http-leases"]}, {"access": ["http-metrics"]}],
    [{"subnets": ["::ffff:127.0.0.8/125"], "access": ["dns-recursion"]}, {"subnets": ["::/1"], "access": ["http", "http-metrics", "http-leases"]}],
]


def random_table(rnd):
    pool = ["127.0.0.0/8", "127.0.0.7/32", "127.0.0.9/8", "127.0.0.0/30", "::1/128", "fd00::/16", "fd00::2/128", "10.77.0.0/24",
            "10.77.0.200/32", "10.77.0.1/25", "0.0.0.0/0", "::/0", "192.0.2.0/24", "::/64", "::/80", "::ffff:0:0/96", "::ffff:127.0.0.0/104"]
    acc = ["dns-recursion", "http", "http-metrics", "http-leases", "http-ro", "dhcp-client"]
    rules = []
    for _ in range(rnd.randint(1, 5)):
        r = {}
        if rnd.random() < 0.8:
            r["subnets"] = rnd.sample(pool, rnd.randint(0, 3))
        if rnd.random() < 0.3:
            r["unix"] = rnd.random() < 0.5
        r["access"] = [a for a in acc if rnd.random() < 0.35]
        rules.append(r)
    return rules


def main():
    base.enter_namespaces()
    args = base.parse_args()
    thorough = args["tier"] == "thorough"
    rnd = random.Random(args["seed"] * 31337 + 8)
    leg = base.Leg(
        "c08-acl-e2e", "C08",
        "real erbium in private namespaces, one instance per ACL table (the documented defaults, the empty list, first-match order, "
        "prefixes written with host bits, unix rules, IPv4-mapped clients, random tables); HTTP GET of /, /metrics, "
        "/api/v1/leases.json and an unknown path from TCP v4 (two loopback addresses and the veth peer), TCP v6 (two addresses), "
        "IPv4 through the dual-stack listener and the unix socket (twice: the listener must survive); DNS queries over TCP from the "
        "same sources with a cache primed by a permitted client: refused sources get REFUSED, cause no upstream transmission and are "
        "not answered from the cache; decisions compared with a first-match model; distinct = (table, client kind, operation, decision)", floor=60)
    sb = None
    ups = []
    try:
        sb = dhcplib.ErbiumSandbox("c08")
        ups.append(dnslib.Upstream("127.0.1.1", lambda qn, proto, nth, q: [("reply", dnslib.build_reply(q, answers=[(qn, 1, 300, bytes([10, 9, 9, 9]))]), 0)], name="u1"))
        tables = list(FIXED_TABLES)
        for _ in range(30 if thorough else 2):
            tables.append(random_table(rnd))
        clients = [
            ("v4-loopback-1", ("ip", ipaddress.ip_address("127.0.0.1")), socket.AF_INET, ("127.0.0.1", 0), ("127.0.0.1", 9968), None),
            ("v4-loopback-7", ("ip", ipaddress.ip_address("127.0.0.7")), socket.AF_INET, ("127.0.0.7", 0), ("127.0.0.1", 9968), None),
            ("v4-veth-peer", ("ip", ipaddress.ip_address("10.77.0.200")), socket.AF_INET, None, ("10.77.0.1", 9968), "cns"),
            ("v6-loopback", ("ip", ipaddress.ip_address("::1")), socket.AF_INET6, ("::1", 0), ("::1", 9969), None),
            ("v6-fd00-2", ("ip", ipaddress.ip_address("fd00::2")), socket.AF_INET6, ("fd00::2", 0), ("fd00::1", 9969), None),
            ("v4-mapped-9", ("ip", ipaddress.ip_address("::ffff:127.0.0.9")), socket.AF_INET, ("127.0.0.9", 0), ("127.0.0.1", 9969), None),
            ("unix", ("unix",), None, None, None, None),
            ("unix-again", ("unix",), None, None, None, None),
        ]
        for ti, table in enumerate(tables):
            conf = ("---\naddresses: [10.77.0.0/24]\napi-listeners: ['/var/lib/erbium/control', '0.0.0.0:9968', '[::]:9969']\n"
                    "dns-listeners: ['127.0.0.53:53', '[::]:5301']\n"
                    "dns-routes:\n  - domain-suffixes: ['']\n    type: forward\n    dns-servers: ['127.0.1.1']\n" + acl_yaml(table))
            rules = DEFAULT_RULES if table is None else table
            try:
                os.unlink("/var/lib/erbium/control")
            except OSError:
                pass
            p = sb.start("erbium", conf, wait_http=("127.0.0.1", 9968), rust_log="warn")
            time.sleep(0.2)
            if ti < 3:
                leg.sample({"acl_table": table if table is not None else "defaults from addresses: [10.77.0.0/24]"})
            try:
                # ---- HTTP
                for (cname, cmodel, fam, src, target, ns) in clients:
                    for (path, perm) in ENDPOINTS:
                        if cmodel[0] == "unix":
                            st, body, err = dhcplib.http_get(None, path, unix="/var/lib/erbium/control", timeout=4.0)
                        else:
                            st, body, err = dhcplib.http_get(target, path, family=fam, src=src, netns=sb.cns if ns else None, timeout=4.0)
                        leg.eval()
                        replay = {"engine": "c08-e2e", "table": table, "client": cname, "path": path, "config": conf}
                        if st is None:
                            leg.cls("http|%s|%s|no-response" % (cname.split("-")[0], path))
                            leg.violation("C08/http-no-response/%s" % cname.split("-")[0], "%s GET %s: %s" % (cname, path, err), replay)
                            continue
                        if perm is None:
                            if st == 200:
                                leg.violation("C08/unknown-path-served", "%s GET %s -> 200" % (cname, path), replay)
                            continue
                        want = first_match(rules, cmodel, perm)
                        if want is None:
                            leg.count("unconstrained_decisions", 1)
                            continue
                        ok = (st == 200) if want else (st == 403)
                        leg.cls("http|table%d|%s|%s|%s|%s" % (min(ti, 6), cname.split("-")[0], perm, want, "ok" if ok else "bad"))
                        if not ok:
                            kind = "granted-although-refused" if not want else "refused-although-granted"
                            leg.violation("C08/http-%s/%s" % (kind, perm), "table %s: %s GET %s -> %d, first-match model says %s" % (
                                table, cname, path, st, "grant" if want else "refuse"), replay)
                # ---- HTTP keep-alive: several requests with different verdicts on ONE connection, in several orders
                orders = [["/", "/metrics", "/api/v1/leases.json", "/"], ["/api/v1/leases.json", "/", "/metrics", "/api/v1/leases.json"],
                          ["/metrics", "/api/v1/leases.json", "/", "/metrics"]]
                permof = dict(ENDPOINTS)
                for (cname, cmodel, fam, src, target, ns) in clients[:7]:
                    for order in orders:
                        if cmodel[0] == "unix":
                            sts = dhcplib.http_keepalive(None, order, unix="/var/lib/erbium/control", timeout=4.0)
                        else:
                            sts = dhcplib.http_keepalive(target, order, family=fam, src=src, netns=sb.cns if ns else None, timeout=4.0)
                        for path, st in zip(order, sts):
                            want = first_match(rules, cmodel, permof[path])
                            leg.eval()
                            if want is None or st is None:
                                leg.count("keepalive_unjudged", 1)
                                continue
                            ok = (st == 200) if want else (st == 403)
                            leg.cls("keepalive|table%d|%s|%s|%s" % (min(ti, 6), cname.split("-")[0], permof[path], "ok" if ok else "bad"))
                            if not ok:
                                kind = "granted-although-refused" if not want else "refused-although-granted"
                                leg.violation("C08/http-keepalive-%s/%s" % (kind, permof[path]),
                                              "table %s: %s, one connection, requests %s -> %s; %s should be %s" % (table, cname, order, sts, path, "granted" if want else "refused"),
                                              {"engine": "c08-e2e", "table": table, "client": cname, "order": order, "statuses": sts, "config": conf})
                # ---- DNS: prime the cache from whichever client is permitted, then ask from everybody
                dns_clients = [
                    ("v4-loopback-1", ("ip", ipaddress.ip_address("127.0.0.1")), socket.AF_INET, ("127.0.0.1", 0), ("127.0.0.53", 53)),
                    ("v4-loopback-7", ("ip", ipaddress.ip_address("127.0.0.7")), socket.AF_INET, ("127.0.0.7", 0), ("127.0.0.53", 53)),
                    ("v6-loopback", ("ip", ipaddress.ip_address("::1")), socket.AF_INET6, ("::1", 0), ("::1", 5301)),
                    ("v6-fd00-2", ("ip", ipaddress.ip_address("fd00::2")), socket.AF_INET6, ("fd00::2", 0), ("fd00::1", 5301)),
                    ("v4-mapped-9", ("ip", ipaddress.ip_address("::ffff:127.0.0.9")), socket.AF_INET, ("127.0.0.9", 0), ("127.0.0.1", 5301)),
                ]
                name = "cached%d.acl.test" % ti
                primed = False
                for (cname, cmodel, fam, src, target) in dns_clients:
                    if first_match(rules, cmodel, "dns") is True:
                        r, err = dnslib.tcp_query(target, dnslib.build_query(1, name, edns=1232), src=src, family=fam, timeout=5.0)
                        primed = r is not None and (dnslib.parse(r).rcode & 0xF) == 0
                        break
                # a refused client that echoes the server cookie it found in its REFUSED reply stays refused
                for (cname, cmodel, fam, src, target) in dns_clients:
                    if first_match(rules, cmodel, "dns") is not False:
                        continue
                    cc = bytes(range(8))
                    q1 = dnslib.build_query(900, "cookie%d.acl.test" % ti, edns=1232, options=struct.pack(">HH", 10, 8) + cc)
                    r1, _e = dnslib.tcp_query(target, q1, src=src, family=fam, timeout=5.0)
                    sc = None
                    if r1 is not None:
                        p1 = dnslib.parse(r1)
                        if p1.opt:
                            for code, val in dnslib.opt_options(p1.opt["rdata"]):
                                if code == 10 and len(val) > 8:
                                    sc = val
                    if sc:
                        mark = len(ups[0].events)
                        q2 = dnslib.build_query(901, "cookie%d.acl.test" % ti, edns=1232, options=struct.pack(">HH", 10, len(sc)) + sc)
                        r2, _e = dnslib.tcp_query(target, q2, src=src, family=fam, timeout=5.0)
                        leg.eval()
                        rc2 = (dnslib.parse(r2).rcode & 0xF) if r2 is not None else None
                        fwd = len([e for e in ups[0].events[mark:] if e["kind"] == "query"])
                        ok2 = rc2 == 5 and fwd == 0
                        leg.cls("dns|cookie-echo|%s" % ("still-refused" if ok2 else "let-in"))
                        if not ok2:
                            leg.violation("C08/dns-refused-client-let-in-after-echoing-the-server-cookie",
                                          "table %s: %s, refused, echoes the server cookie from its REFUSED reply -> rcode %s, %d upstream transmissions" % (table, cname, rc2, fwd),
                                          {"engine": "c08-e2e", "table": table, "client": cname, "config": conf})
                    break
                for qi, (cname, cmodel, fam, src, target) in enumerate(dns_clients):
                    want = first_match(rules, cmodel, "dns")
                    for qname in (name, "fresh%d-%d.acl.test" % (ti, qi)):
                        mark = len(ups[0].events)
                        r, err = dnslib.tcp_query(target, dnslib.build_query(2 + qi, qname, edns=1232), src=src, family=fam, timeout=5.0)
                        time.sleep(0.01)
                        seen = [e for e in ups[0].events[mark:] if e["kind"] == "query" and (e.get("qname") or "").lower() == qname]
                        leg.eval()
                        replay = {"engine": "c08-e2e", "table": table, "client": cname, "qname": qname, "config": conf}
                        if want is None:
                            leg.count("unconstrained_decisions", 1)
                            continue
                        if r is None:
                            leg.violation("C08/dns-no-response", "%s: %s" % (cname, err), replay)
                            continue
                        pr = dnslib.parse(r)
                        rc = pr.rcode & 0xF
                        if want:
                            ok = rc == 0 and len(pr.answers) > 0
                        else:
                            ok = rc == REFUSED and not seen and not pr.answers
                        leg.cls("dns|table%d|%s|%s|%s|%s" % (min(ti, 6), cname.split("-")[0], "cached" if qname == name and primed else "fresh", want, "ok" if ok else "bad"))
                        if not ok:
                            if want:
                                sig = "dns-refused-although-granted"
                            elif seen:
                                sig = "dns-refused-client-query-forwarded"
                            elif pr.answers:
                                sig = "dns-refused-client-answered-from-cache"
                            else:
                                sig = "dns-refused-client-wrong-rcode"
                            leg.violation("C08/%s" % sig, "table %s: %s asks %s over TCP -> rcode %d, %d answers, %d upstream transmissions; model says %s" % (
                                table, cname, qname, rc, len(pr.answers), len(seen), "grant" if want else "refuse"), replay)
                for line in p.panics():
                    leg.violation("C08/handler-panic/%s" % base.panic_signature(line), line.strip(), {"engine": "c08-e2e", "config": conf})
                if not p.alive():
                    leg.violation("C08/service-died", p.text()[-400:], {"engine": "c08-e2e", "config": conf})
            finally:
                p.stop()
            leg.count("acl_tables", 1)
    except base.Inconclusive as e:
        leg.inconclusive(str(e))
    finally:
        for u in ups:
            u.stop()
        if sb:
            sb.close()
    leg.write(args)


if __name__ == "__main__":
    main()
