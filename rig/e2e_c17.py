#!/usr/bin/python3
"""C17 end-to-end leg: router solicitations sent from the client namespace over the veth pair to the
real erbium; the advertisement captured on the wire is decoded by the RFC decoder (`vh judge-ra`)
and compared with the configuration (adds what the in-process leg cannot see: link-layer address,
interface MTU and $self6 taken from the live interface)."""
import json
import os
import socket
import sys
import time

sys.path.insert(0, os.path.dirname(os.path.abspath(__file__)))
import base  # noqa: E402
import dhcplib  # noqa: E402

UNREPRESENTABLE = {0}  # configurations holding a value no wire field can carry

CASES = [
    # (yaml for the vs0 interface + top level, expected subset)
    ("""---
dns-servers: ['$self6', '2001:db8::53', '192.0.2.53']
dns-search: ['example.com', 'corp.example.org']
captive-portal: 'https://portal.example/'
api-listeners: ['127.0.0.1:9968']
router-advertisements:
  vs0:
    hop-limit: 64
    managed: true
    lifetime: 1d
    reachable: 30s
    retransmit: 1s
    prefixes:
      - prefix: fd77::1/64
        valid: 2d
        preferred: 1d
    pref64:
      prefix: 64:ff9b::/96
      lifetime: 10m
""", {"hop_limit": 64, "managed": True, "other": False, "router_lifetime": 65535, "reachable_ms": 30000, "retrans_ms": 1000, "mtu": 1500,
      "prefixes": [{"prefix": "fd77::", "len": 64, "on_link": True, "autonomous": True, "valid": 172800, "preferred": 86400}],
      "rdnss_addresses": ["fd77::1", "2001:db8::53"], "dnssl_domains": ["example.com", "corp.example.org"],
      "pref64": [{"lifetime": 600, "len": 96, "prefix": "64:ff9b::"}], "captive_portal": ["https://portal.example/"]}),
    ("""---
api-listeners: ['127.0.0.1:9968']
router-advertisements:
  vs0:
    other: true
    lifetime: 30m
    mtu: 1280
    captive-portal: null
    prefixes:
      - prefix: 2001:db8:1::/48
        on-link: false
        autonomous: false
    dns-servers:
      addresses: ['$self6', 'fd00::53']
      lifetime: 2h
    dns-search:
      domains: ['lan']
      lifetime: 1h
    pref64:
      prefix: 64:ff9b:1::/48
""", {"hop_limit": 0, "managed": False, "other": True, "router_lifetime": 1800, "reachable_ms": 0, "retrans_ms": 0, "mtu": 1280,
      "prefixes": [{"prefix": "2001:db8:1::", "len": 48, "on_link": False, "autonomous": False, "valid": 2592000, "preferred": 604800}],
      "rdnss_addresses": ["fd77::1", "fd00::53"], "rdnss_lifetime": 7200, "dnssl_domains": ["lan"], "dnssl_lifetime": 3600,
      "pref64": [{"lifetime": 600, "len": 48, "prefix": "64:ff9b:1::"}], "captive_portal": []}),
    ("""---
dns-servers: ['192.0.2.53']
api-listeners: ['127.0.0.1:9968']
router-advertisements:
  vs0:
    lifetime: null
    mtu: null
    dns-search:
      domains: null
""", {"hop_limit": 0, "managed": False, "other": False, "router_lifetime": 0, "mtu": None, "prefixes": [], "rdnss_addresses": [],
      "dnssl_domains": [], "pref64": [], "captive_portal": []}),
    # no router-advertisements section at all: the interface is served because its address lies inside `addresses`, and the
    # prefix is derived from the interface's own address (fd77::1/64), not from a parsed prefix
    ("""---
api-listeners: ['127.0.0.1:9968']
addresses: ['fd77::/64', '10.77.0.0/24']
""", {"prefixes": [{"prefix": "fd77::", "len": 64, "on_link": True, "autonomous": True, "valid": 2592000, "preferred": 604800}],
      "pref64": [], "captive_portal": []}),
]


def main():
    base.enter_namespaces()
    args = base.parse_args()
    leg = base.Leg(
        "c17-ra-e2e", "C17",
        "real erbium per configuration (all fields set; null/absent mix; everything suppressed; no RA section, interface implied by `addresses`), router solicitation from the client "
        "namespace over the veth pair, advertisement captured from the raw ICMPv6 socket and decoded by the RFC decoder: every configured "
        "value, $self6 = the interface's ULA, source link-layer address = the interface MAC, interface MTU when none is configured, "
        "structural rules; distinct = (configuration, field, outcome)", floor=20)
    sb = None
    try:
        sb = dhcplib.ErbiumSandbox("c17")
        # the router has an IPv6 default route of its own, out of ANOTHER interface (an uplink): what an interface is told to
        # advertise does not depend on that
        for cmd in ("ip link add uplink0 type veth peer name uplink1", "ip link set uplink0 up", "ip link set uplink1 up",
                    "ip -6 addr add fd99::1/64 dev uplink0 nodad",
                    "ip -6 route add default via fd99::2 dev uplink0"):
            base.sh(cmd, check=False)
        leg.count("default_route_out_of_another_interface", 1 if "default" in base.sh("ip -6 route show default", check=False) else 0)
        with sb.cns:
            s = socket.socket(socket.AF_INET6, socket.SOCK_RAW, socket.IPPROTO_ICMPV6)
        s.setsockopt(socket.IPPROTO_IPV6, socket.IPV6_MULTICAST_HOPS, 255)
        ifidx = int(sb.cns.run("cat /sys/class/net/vc0/ifindex").strip())
        for ci, (conf, want) in enumerate(CASES):
            try:
                p = sb.start("erbium", conf, wait_http=("127.0.0.1", 9968), rust_log="warn")
            except base.Inconclusive:
                # "a configured value that the wire field cannot represent is rejected or clamped": configuration 0 asks for a
                # router lifetime of 1 d (> 65535 s); a server that refuses to load it is within the property
                pr = sb.procs[-1]
                if ci in UNREPRESENTABLE and not pr.alive():
                    leg.eval()
                    leg.cls("conf%d|rejected-at-load" % ci)
                    leg.count("configurations_rejected_at_load", 1)
                    leg.sample({"config_rejected_at_load": ci, "log_tail": pr.text()[-200:]})
                    pr.stop()
                    # the same configuration with the value in range must then be served as written
                    conf = conf.replace("lifetime: 1d", "lifetime: 18h")
                    want = dict(want, router_lifetime=64800)
                    p = sb.start("erbium", conf, wait_http=("127.0.0.1", 9968), rust_log="warn")
                else:
                    raise
            time.sleep(0.4)
            ra = None
            for attempt in range(3):
                s.sendto(bytes([133, 0, 0, 0, 0, 0, 0, 0, 1, 1, 2, 0, 0x5e, 0x10, 0, 2]), ("ff02::2", 0, 0, ifidx))
                s.settimeout(0.4)
                end = time.monotonic() + 2.0
                while time.monotonic() < end and ra is None:
                    try:
                        data, frm = s.recvfrom(65535)
                    except OSError:
                        continue
                    if data and data[0] == 134:
                        ra = data
                if ra:
                    break
            replay = {"engine": "c17-e2e", "config": conf, "ra_hex": ra.hex() if ra else None}
            leg.eval()
            if ra is None:
                leg.violation("C17/e2e/solicitation-unanswered", "configuration %d: no advertisement within 6 s: %s" % (ci, p.text()[-300:]), replay)
                p.stop()
                continue
            rc, out = base.run_vh(["judge-ra", "--hex", ra.hex()])
            try:
                got = json.loads(out.strip().splitlines()[-1])
            except (ValueError, IndexError):
                leg.inconclusive("judge-ra output unreadable: %s" % out[-200:])
                p.stop()
                continue
            if "error" in got:
                leg.violation("C17/e2e/advertisement-undecodable", got["error"], replay)
                p.stop()
                continue
            for srule in got["structural"]:
                leg.violation("C17/e2e/structure", srule, replay)
            checks = {
                "hop_limit": got["hop_limit"], "managed": got["managed"], "other": got["other"], "router_lifetime": got["router_lifetime"],
                "reachable_ms": got["reachable_ms"], "retrans_ms": got["retrans_ms"], "mtu": got["mtu"], "prefixes": got["prefixes"],
                "rdnss_addresses": [a for o in got["rdnss"] for a in o["addresses"]],
                "rdnss_lifetime": got["rdnss"][0]["lifetime"] if got["rdnss"] else None,
                "dnssl_domains": [x for o in got["dnssl"] for x in o["domains"]],
                "dnssl_lifetime": got["dnssl"][0]["lifetime"] if got["dnssl"] else None,
                "pref64": got["pref64"], "captive_portal": got["captive_portal"],
            }
            for k, v in want.items():
                leg.eval()
                ok = checks.get(k) == v
                leg.cls("conf%d|%s|%s" % (ci, k, "ok" if ok else "bad"))
                if not ok:
                    leg.violation("C17/e2e/%s" % k.replace("_", "-"), "configuration %d: expected %r, advertised %r" % (ci, v, checks.get(k)), replay)
            leg.eval()
            if got["source_ll"] != dhcplib.SERVER_MAC.replace(":", ""):
                leg.violation("C17/e2e/source-link-layer-address", "%s vs interface %s" % (got["source_ll"], dhcplib.SERVER_MAC), replay)
            if ci == 0:
                leg.sample({"config": conf, "decoded": got})
            for line in p.panics():
                leg.violation("C17/handler-panic/%s" % base.panic_signature(line), line.strip(), replay)
            p.stop()
        s.close()
    except base.Inconclusive as e:
        leg.inconclusive(str(e))
    finally:
        if sb:
            sb.close()
    leg.write(args)


if __name__ == "__main__":
    main()
