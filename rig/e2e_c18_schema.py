#!/usr/bin/python3
"""C18 end-to-end leg, schema clauses, through the production open path (Pool::new on
/var/lib/erbium/leases.sqlite): lease databases written here with Python's sqlite3 in the original
unversioned schema, version 0, version 1 and versions newer than 1 are put in place before the real
erbium-dhcp starts.  Older/current ones must be served from (holders get their address back, running
leases are not given away) with every row preserved; newer ones must be refused and left untouched."""
import os
import random
import sqlite3
import sys
import time

sys.path.insert(0, os.path.dirname(os.path.abspath(__file__)))
import base  # noqa: E402
import dhcplib  # noqa: E402

DB = "/var/lib/erbium/leases.sqlite"
CONF = "---\ndhcp-policies:\n  - match-subnet: 10.77.0.0/24\n    apply-range: { start: 10.77.0.20, end: 10.77.0.60 }\n"


def write_db(variant, rows):
    for suffix in ("", "-journal", "-wal", "-shm"):
        try:
            os.unlink(DB + suffix)
        except OSError:
            pass
    con = sqlite3.connect(DB)
    with_options = variant in ("v1", "newer")
    con.execute("CREATE TABLE leases (address TEXT NOT NULL, chaddr BLOB, clientid BLOB, start INTEGER NOT NULL, expiry INTEGER NOT NULL%s%s, PRIMARY KEY (address))"
                % (", options BLOB" if with_options else "", ", vendor_class BLOB" if variant == "newer" else ""))
    if variant != "v0-unversioned":
        con.execute("CREATE TABLE schema_version (key TEXT NOT NULL, version INTEGER NOT NULL, PRIMARY KEY (key))")
        con.execute("INSERT INTO schema_version VALUES ('pool', ?)", ({"v0-versioned": 0, "v1": 1, "newer": 99}[variant],))
    for (a, ch, cid, st, ex) in rows:
        con.execute("INSERT INTO leases (address, chaddr, clientid, start, expiry) VALUES (?, ?, ?, ?, ?)", (a, ch, cid, st, ex))
    con.commit()
    con.close()


def dump():
    con = sqlite3.connect("file:%s?mode=ro" % DB, uri=True, timeout=5)
    try:
        out = [tuple(r) for r in con.execute("SELECT type, name, sql FROM sqlite_master ORDER BY type, name")]
        for (t, name, _sql) in list(out):
            if t == "table":
                out += sorted((name,) + tuple(r) for r in con.execute('SELECT * FROM "%s"' % name))
        return out
    finally:
        con.close()


def lease_rows():
    con = sqlite3.connect("file:%s?mode=ro" % DB, uri=True, timeout=5)
    try:
        return sorted(tuple(r) for r in con.execute("SELECT address, clientid, start, expiry FROM leases"))
    finally:
        con.close()


def main():
    base.enter_namespaces()
    args = base.parse_args()
    rnd = random.Random(args["seed"] * 18 + 7)
    leg = base.Leg(
        "c18-schema-e2e", "C18",
        "lease databases written with Python's sqlite3 (original unversioned schema, version 0, version 1, a newer version) holding running and "
        "expired leases are put at /var/lib/erbium/leases.sqlite before the real erbium-dhcp starts: for older/current ones every holder of a running "
        "lease is offered that address again, a newcomer is never offered a running lease, and after the server stopped every row written is still "
        "there (address, client, start, expiry; rows touched by the exchanges excepted); a newer one is never served from and a full dump of the "
        "file is identical afterwards; distinct = (schema variant, check, outcome)", floor=8)
    sb = None
    try:
        sb = dhcplib.ErbiumSandbox("c18s")
        for variant in ("v0-unversioned", "v0-versioned", "v1", "newer"):
            now = int(time.time())
            holders = [bytes([2, 0x18, rnd.randrange(256), rnd.randrange(256), 0, i]) for i in range(3)]
            rows = []
            for i, m in enumerate(holders):
                rows.append(("10.77.0.%d" % (30 + i), m if i % 2 else None, m, now - 100 - i, now + 2000 + 100 * i))
            # expired leases of strangers, one outside the pool, one with a long client identifier
            rows.append(("10.77.0.40", None, b"\x01gone-client", now - 90000, now - 4000))
            rows.append(("10.77.0.41", b"\x02\x00\x00\x00\x00\x09", bytes(range(1, 200)), now - 9000, now - 1))
            rows.append(("10.99.0.5", None, b"\x01elsewhere", now - 50, now + 86000))
            write_db(variant, rows)
            before_dump = dump()
            p = sb.start("erbium-dhcp", CONF, name="erbium-dhcp-%s" % variant)
            time.sleep(1.2)
            touched = set()
            if variant == "newer":
                mac = holders[0]
                frames, off = dhcplib.exchange(sb.client, mac, 1, 900, options=[(55, bytes([1, 3, 51]))], wait=2.0)
                leg.eval()
                leg.cls("%s|served|%s" % (variant, "yes" if off else "no"))
                if off:
                    leg.violation("C18/schema-e2e/newer-version-served", "a database whose schema_version says pool = 99 is being served from (offer %s)" % off["yiaddr"],
                                  {"engine": "c18-schema-e2e", "variant": variant})
                p.stop()
                leg.eval()
                after = dump()
                leg.cls("%s|dump|%s" % (variant, "same" if after == before_dump else "differs"))
                if after != before_dump:
                    diff = [x for x in after if x not in before_dump][:3] + [x for x in before_dump if x not in after][:3]
                    leg.violation("C18/schema-e2e/newer-version-modified", "dump differs after the start attempt: %r" % (diff,), {"engine": "c18-schema-e2e", "variant": variant})
                continue
            if not p.alive():
                leg.eval()
                leg.violation("C18/schema-e2e/older-database-refused/%s" % variant, p.text()[-400:], {"engine": "c18-schema-e2e", "variant": variant})
                continue
            xid = 1000
            for i, m in enumerate(holders):
                xid += 1
                frames, off = dhcplib.exchange(sb.client, m, 1, xid, options=[(55, bytes([1, 3, 51]))], wait=2.5)
                if off is None:
                    # a client retransmits; on a loaded machine the socket may not have been open after the fixed pause
                    leg.count("discover_retransmissions", 1)
                    frames, off = dhcplib.exchange(sb.client, m, 1, xid, options=[(55, bytes([1, 3, 51]))], wait=5.0)
                leg.eval()
                want = "10.77.0.%d" % (30 + i)
                ok = off is not None and off["yiaddr"] == want
                leg.cls("%s|holder|%s" % (variant, "same-address" if ok else ("other" if off else "silence")))
                if off:
                    touched.add(off["yiaddr"])
                if not ok:
                    leg.violation("C18/schema-e2e/holder-not-given-its-address/%s" % variant,
                                  "client %s holds %s for another %d s in the database the server started from, DISCOVER answered with %s" % (m.hex(), want, rows[i][4] - int(time.time()), off["yiaddr"] if off else None),
                                  {"engine": "c18-schema-e2e", "variant": variant, "log": p.text()[-300:]})
            running = {r[0] for r in rows if r[4] > int(time.time()) + 2}
            for k in range(4):
                xid += 1
                m = bytes([2, 0x19, rnd.randrange(256), 0, 0, k])
                frames, off = dhcplib.exchange(sb.client, m, 1, xid, options=[(55, bytes([1, 3, 51]))], wait=2.5)
                leg.eval()
                leg.cls("%s|newcomer|%s" % (variant, "free-address" if off and off["yiaddr"] not in running else ("running-lease" if off else "silence")))
                if off:
                    touched.add(off["yiaddr"])
                    if off["yiaddr"] in running:
                        leg.violation("C18/schema-e2e/running-lease-given-away/%s" % variant, "%s is held in the database the server started from, offered to newcomer %s" % (off["yiaddr"], m.hex()),
                                      {"engine": "c18-schema-e2e", "variant": variant})
            for line in p.panics():
                leg.violation("C18/handler-panic/%s" % base.panic_signature(line), line.strip(), {"engine": "c18-schema-e2e", "variant": variant})
            p.stop()
            leg.eval()
            try:
                after = {r[0]: r for r in lease_rows()}
            except sqlite3.Error as e:
                leg.violation("C18/schema-e2e/database-unreadable-afterwards/%s" % variant, str(e), {"engine": "c18-schema-e2e", "variant": variant})
                continue
            lost = [r for r in rows if r[0] not in touched and after.get(r[0]) != (r[0], r[2], r[3], r[4])]
            leg.cls("%s|rows|%s" % (variant, "preserved" if not lost else "lost"))
            leg.count("rows_checked_after_stop", len([r for r in rows if r[0] not in touched]))
            if lost:
                leg.violation("C18/schema-e2e/rows-not-preserved/%s" % variant, "%d of %d untouched rows differ or are gone, first: wrote %r, found %r" % (len(lost), len(rows), lost[0], after.get(lost[0][0])),
                              {"engine": "c18-schema-e2e", "variant": variant})
    except base.Inconclusive as e:
        leg.inconclusive(str(e))
    finally:
        if sb:
            sb.close()
    leg.write(args)


if __name__ == "__main__":
    main()
