#!/usr/bin/python3
"""C20 end-to-end leg: the HTTP lease listing is valid JSON with exactly one entry per stored
lease whatever bytes clients put in host names and identifiers; the lease gauges agree with the
store (also when it is empty and after leases have expired)."""
import json
import os
import random
import re
import sqlite3
import sys
import time

sys.path.insert(0, os.path.dirname(os.path.abspath(__file__)))
import base  # noqa: E402
import dhcplib  # noqa: E402

CONF = """---
addresses: [10.77.0.0/24]
api-listeners: ['/var/lib/erbium/control', '127.0.0.1:9968']
dns-listeners: ['127.0.0.1:5300']
dhcp-policies:
  - match-user-class: 'alt'
    apply-range: { start: 10.77.0.210, end: 10.77.0.240 }
"""
DB = "/var/lib/erbium/leases.sqlite"


def rows():
    con = sqlite3.connect("file:%s?mode=ro" % DB, uri=True, timeout=5)
    try:
        return con.execute("SELECT address, clientid, start, expiry FROM leases").fetchall()
    finally:
        con.close()


def gauges(body):
    out = {}
    for line in body.decode("utf-8", "replace").splitlines():
        m = re.match(r"^(dhcp_active_leases|dhcp_expired_leases)\s+([0-9.e+]+)$", line)
        if m:
            out[m.group(1)] = int(float(m.group(2)))
    return out


def hostile_names(rnd, thorough):
    v = [b"", b"plain", b'quo"te', b"back\\slash", b"tab\there", b"nl\nhere", b"\x00nul", b"\x01\x02\x1f", b"\x7f", b"\xff\xfe\xfd",
         "café".encode(), "\U0001F600".encode(), b"\xed\xa0\x80", b"\xc0\xaf", b'"}],"x":[{"', b"\\u0000", b"\r\n\r\n", b"'", b"</script>",
         b"a" * 255, bytes(range(0, 128)), bytes(range(128, 256)), b"\\", b'"', b"\x1b[31m", b"{:?}", b"\xe2\x80\xa8"]
    n = 120 if thorough else 24
    for _ in range(n):
        l = rnd.choice([1, 2, 3, 8, 40, 255])
        v.append(bytes(rnd.randrange(256) for _ in range(l)))
    return v


def main():
    base.enter_namespaces()
    args = base.parse_args()
    thorough = args["tier"] == "thorough"
    rnd = random.Random(args["seed"] * 104729 + 20)
    leg = base.Leg(
        "c20-listing-gauges-e2e", "C20",
        "real erbium in private namespaces; DISCOVER/REQUEST exchanges over a veth pair whose host-name and client-identifier options (and, for half of the clients, one to three further options such as client FQDN, vendor/user class, relay information with empty, too-short, long and arbitrary values; a quarter without any host-name option) "
        "carry every byte value (quotes, backslashes, controls, NUL, invalid UTF-8, lengths 0..255); after each batch GET "
        "/api/v1/leases.json must parse as JSON and equal the rows read directly from the SQLite file (address, client id, start, "
        "expiry, one entry per row); /metrics gauges compared with counts from the same rows and the clock, on the empty store, with "
        "live leases, after a restart with some leases shifted into the past, and on a fresh store whose every fdatasync is delayed by 150 ms (strace injection) while three scrapers run during a burst of DISCOVERs (gauge total within [exchanges answered when the scrape began, exchanges sent]); distinct = (observation, name class, outcome)", floor=8)
    sb = None
    try:
        sb = dhcplib.ErbiumSandbox("c20")
        p = sb.start("erbium", CONF, wait_http=("127.0.0.1", 9968))
        time.sleep(0.5)

        def check_listing(tag):
            st, body, err = dhcplib.http_get(("127.0.0.1", 9968), "/api/v1/leases.json")
            leg.eval()
            replay = {"engine": "c20-e2e", "phase": tag, "body": body[:3000].decode("latin1")}
            if st != 200:
                leg.violation("C20/listing-not-served", "status %s (%s)" % (st, err), replay)
                return
            try:
                doc = json.loads(body.decode("utf-8"))
            except (ValueError, UnicodeDecodeError) as e:
                leg.cls("listing|%s|invalid-json" % tag)
                leg.violation("C20/listing-not-valid-json", "%s" % e, replay)
                return
            rs = rows()
            want = sorted((a, ":".join("%02x" % b for b in (cid or b"")), s, e) for (a, cid, s, e) in rs)
            try:
                got = sorted((x["ip"], x["client_id"], x["start"], x["expire"]) for x in doc["leases"])
            except (KeyError, TypeError) as e:
                leg.violation("C20/listing-shape", str(e), replay)
                return
            leg.cls("listing|%s|%s" % (tag, "equal" if got == want else "differs"))
            leg.count("listing_entries_compared", len(want))
            if got != want:
                leg.violation("C20/listing-differs-from-store", "store has %d rows, listing %d entries; first difference: %s" % (
                    len(want), len(got), next(((a, b) for a, b in zip(want, got) if a != b), "length")), replay)

        def check_gauges(tag):
            t0 = int(time.time())
            st, body, err = dhcplib.http_get(("127.0.0.1", 9968), "/metrics")
            t1 = int(time.time())
            leg.eval()
            if st != 200:
                leg.violation("C20/metrics-not-served", "status %s (%s)" % (st, err), {"engine": "c20-e2e", "phase": tag})
                return
            g = gauges(body)
            rs = rows()
            if any(abs(e - t0) <= 2 or abs(e - t1) <= 2 for (_, _, _, e) in rs):
                leg.count("skipped_at_boundary", 1)
                return
            active = len([1 for r in rs if r[3] > t1])
            expired = len(rs) - active
            got = (g.get("dhcp_active_leases"), g.get("dhcp_expired_leases"))
            leg.cls("gauges|%s|live%d|expired%d|%s" % (tag, min(active, 3), min(expired, 3), "ok" if got == (active, expired) else "bad"))
            if got != (active, expired):
                sig = "gauges-swapped" if got == (expired, active) and active != expired else "gauges-wrong"
                leg.violation("C20/%s" % sig, "store: %d live, %d expired; /metrics: active=%s expired=%s" % (active, expired, got[0], got[1]),
                              {"engine": "c20-e2e", "phase": tag, "gauges": g})

        # ---- empty store
        check_gauges("empty")
        check_listing("empty")
        # ---- leases with hostile names
        names = hostile_names(rnd, thorough)
        xid = 1000
        acked = 0
        for i, nm in enumerate(names):
            mac = bytes([0x02, 0x20, 0, 0, (i >> 8) & 0xFF, i & 0xFF])
            cid = None
            if i % 3 == 1:
                cid = bytes([1]) + mac
            elif i % 3 == 2:
                cid = names[(i * 7) % len(names)][:200] or b"\x00"
            opts = [(12, nm), (55, bytes([1, 3, 6, 12, 15]))]
            if i % 4 == 3:
                # no host-name option at all, but other options a listing might want to show (client FQDN, vendor class, user
                # class, relay agent information, ...) with too-short, empty, long and arbitrary contents
                opts = [(55, bytes([1, 3, 6, 12, 15]))]
                # ... always a client FQDN option (81: flags, two rcode octets, then the name -- in DNS wire form when the E
                # flag, 0x04, is set): well-formed ones and ones whose inner lengths run past the end of the option
                fq = [b"\x05\x00\x00\x04host\x07example\x00", b"\x04\x00\x00\x09ab", b"\x04\x00\x00\x3f", b"\x05\xff\xff\xc8" + b"x" * 10, b"\x04\x00\x00\x03abc",
                      b"\x04\x00\x00\x03abc\xc0\x03", b"\x04\x00\x00\x01a\x40", b"\x00\x00\x00plain.example", b"\x04\x00\x00", b"\x04\x00", b"\x04",
                      b"\x04\x00\x00\x00", b"\x04\x00\x00\x02\xff\xfe\x00", b"\x0f\x00\x00" + bytes([63]) + b"y" * 63 + bytes([63]) + b"z" * 10]
                opts.append((81, fq[(i // 4) % len(fq)]))
            if i % 2 == 1:
                for code in rnd.sample([81, 60, 77, 82, 43, 124, 125, 15, 93, 97, 116, 224] if i % 4 != 3 else [60, 77, 82, 43, 124, 125, 15, 93, 97, 116, 224], rnd.randint(1, 3)):
                    val = rnd.choice([b"", b"\x01", b"\x01\x01", b"\x00\x00\x00", bytes(rnd.randrange(256) for _ in range(rnd.choice([3, 4, 9, 60, 255]))),
                                      b"\x05\x00\x00\x04host\x07example\x00", b'"\\\x00\xff'])
                    opts.append((code, val))
            if cid is not None:
                opts.append((61, cid))
            xid += 1
            frames, off = dhcplib.exchange(sb.client, mac, 1, xid, options=opts)
            if not off:
                leg.count("discover_unanswered", 1)
                continue
            xid += 1
            ropts = opts + [(50, bytes(int(x) for x in off["yiaddr"].split("."))), (54, bytes([10, 77, 0, 1]))]
            frames, ack = dhcplib.exchange(sb.client, mac, 3, xid, options=ropts)
            if ack:
                acked += 1
            if i % 5 == 0:
                # the same client (same identifier) once more, now presenting a user class that puts it into another range:
                # one client, two leases, two rows -- and two entries in the listing
                xid += 1
                aopts = opts + [(77, b"alt")]
                frames, off2 = dhcplib.exchange(sb.client, mac, 1, xid, options=aopts)
                if off2:
                    xid += 1
                    frames, ack2 = dhcplib.exchange(sb.client, mac, 3, xid, options=aopts + [(50, bytes(int(x) for x in off2["yiaddr"].split("."))), (54, bytes([10, 77, 0, 1]))])
                    if ack2 and off and ack2["yiaddr"] != off["yiaddr"]:
                        leg.count("clients_holding_two_leases", 1)
            if i % 8 == 7 or i == len(names) - 1:
                check_listing("names-batch")
                leg.cls("names|%s" % ("utf8" if all(b < 0x80 for b in nm) else "high-bytes"))
        # ---- scrapes WHILE leases are being handed out: rows only get added here, so whatever instant a scrape describes,
        # active + expired lies between the row count read just before it and the one read just after it
        import threading
        stop = [False]
        scr = {"n": 0, "bad": []}

        def scraper():
            while not stop[0]:
                n0 = len(rows())
                st, body, err = dhcplib.http_get(("127.0.0.1", 9968), "/metrics")
                n1 = len(rows())
                if st != 200:
                    continue
                g = gauges(body)
                tot = (g.get("dhcp_active_leases") or 0) + (g.get("dhcp_expired_leases") or 0)
                scr["n"] += 1
                if not (n0 <= tot <= n1):
                    scr["bad"].append((n0, tot, n1))

        ths = [threading.Thread(target=scraper) for _ in range(4)]
        for th in ths:
            th.start()
        # bursts of DISCOVERs written back to back: the server works them off one after the other, holding its lease store
        for burst in range(3):  # 120 more clients; the pool has some 215 addresses
            for k in range(40):
                mac = bytes([2, 0x22, burst, 0, 0, k])
                xid += 1
                sb.client.send(dhcplib.frame(mac, dhcplib.dhcp_payload(1, mac, xid, options=[(55, bytes([1, 3, 6]))])))
            sb.client.recv_frames(1.0, want=dhcplib.is_dhcp_reply)
        for k in range(20 if thorough else 10):
            mac = bytes([2, 0x21, 0, 0, k >> 8, k & 0xFF])
            xid += 1
            frames, off = dhcplib.exchange(sb.client, mac, 1, xid, options=[(55, bytes([1, 3, 6]))])
            if off:
                xid += 1
                dhcplib.exchange(sb.client, mac, 3, xid, options=[(55, bytes([1, 3, 6])), (50, bytes(int(x) for x in off["yiaddr"].split("."))), (54, bytes([10, 77, 0, 1]))])
        stop[0] = True
        for th in ths:
            th.join(timeout=20)
        leg.eval()
        leg.count("scrapes_during_allocation", scr["n"])
        leg.cls("concurrent-scrapes|%s" % ("consistent" if not scr["bad"] else "stale"))
        if scr["bad"]:
            leg.violation("C20/gauges-stale-while-leases-are-handed-out", "%d of %d scrapes outside [rows before, rows after]; first: rows before %d, active+expired %d, rows after %d" % (
                len(scr["bad"]), scr["n"], scr["bad"][0][0], scr["bad"][0][1], scr["bad"][0][2]), {"engine": "c20-e2e", "phase": "concurrent", "bad": scr["bad"][:10]})
        leg.count("leases_acked", acked)
        if acked < 10:
            leg.inconclusive("only %d DHCP exchanges completed: %s" % (acked, p.text()[-300:]))
        check_gauges("live")
        leg.sample({"host_names_hex": [n.hex()[:60] for n in names[:8]], "acked": acked})
        # ---- expire some leases: stop, shift, restart
        p.stop()
        con = sqlite3.connect(DB, timeout=5)
        n_rows = con.execute("SELECT COUNT(*) FROM leases").fetchone()[0]
        con.execute("UPDATE leases SET start = start - 100000, expiry = expiry - 100000 WHERE rowid % 3 = 0")
        con.commit()
        con.close()
        p = sb.start("erbium", CONF, wait_http=("127.0.0.1", 9968))
        time.sleep(0.3)
        check_gauges("after-expiry")
        check_listing("after-expiry")
        leg.count("rows_in_store", n_rows)
        # ---- slow storage: a fresh store whose every fdatasync takes 150 ms (strace delay injection), so that one packet's
        # lease write keeps the store busy for hundreds of milliseconds (an SD card, a busy disk) and scrapes arrive while it
        # is; what a scrape reports must still describe the store at some instant of the scrape
        if base.sh("which strace", check=False).strip() == "":
            leg.count("slow_storage_phase_skipped_no_strace", 1)
        else:
            p.stop()
            for f in (DB, DB + "-journal"):
                try:
                    os.unlink(f)
                except OSError:
                    pass
            wrapper = ["strace", "-f", "-qq", "-o", "/dev/null", "-e", "trace=fdatasync,fsync", "-e", "inject=fdatasync,fsync:delay_enter=150000"]
            p = sb.start("erbium", CONF, wait_http=("127.0.0.1", 9968), wrapper=wrapper)
            time.sleep(0.5)
            check_gauges("slow-storage-empty")
            done = 0
            for k in range(2):
                mac = bytes([2, 0x23, 0, 0, 0, k])
                xid += 2
                t0 = time.monotonic()
                frames, off = dhcplib.exchange(sb.client, mac, 1, xid, options=[(55, bytes([1, 3, 6]))], wait=6.0)
                if off:
                    done += 1
                    leg.count("slow_storage_discover_ms_total", int((time.monotonic() - t0) * 1000))
            # (the store is not read with sqlite3 here: readers starve behind a writer that is always inside a commit.  The
            # bounds come from the exchanges instead: a reply is sent after its lease is committed, so the rows present when a
            # scrape begins are at least the exchanges answered by then, and at most everything sent)
            stop = [False]
            answered = [done]
            scr = {"n": 0, "waited": 0, "bad": []}
            burst = 6
            sent = 2 + burst  # every client of this phase, answered in time or not, may have a row

            def slow_scraper():
                while not stop[0]:
                    n0 = answered[0]
                    t0 = time.monotonic()
                    st, body, err = dhcplib.http_get(("127.0.0.1", 9968), "/metrics")
                    dt = time.monotonic() - t0
                    if st != 200:
                        continue
                    g = gauges(body)
                    tot = (g.get("dhcp_active_leases") or 0) + (g.get("dhcp_expired_leases") or 0)
                    scr["n"] += 1
                    if dt > 0.1:
                        scr["waited"] += 1
                    if not (n0 <= tot <= sent) or "dhcp_active_leases" not in g or "dhcp_expired_leases" not in g:
                        scr["bad"].append((n0, tot, sent, int(dt * 1000)))
                    time.sleep(0.03)

            ths = [threading.Thread(target=slow_scraper) for _ in range(3)]
            xids = set()
            for k in range(burst):
                mac = bytes([2, 0x23, 1, 0, 0, k])
                xid += 1
                xids.add(xid)
                sb.client.send(dhcplib.frame(mac, dhcplib.dhcp_payload(1, mac, xid, options=[(55, bytes([1, 3, 6]))])))
            time.sleep(0.05)
            for th in ths:
                th.start()
            seen = set()
            t_end = time.monotonic() + 12.0
            while time.monotonic() < t_end and len(seen) < burst:
                for f in sb.client.recv_frames(0.5, want=dhcplib.is_dhcp_reply, stop_after=1):
                    d = dhcplib.dhcp_of_frame(f)
                    if d and d.get("xid") in xids and d["xid"] not in seen:
                        seen.add(d["xid"])
                        answered[0] = done + len(seen)
            got = list(seen)
            stop[0] = True
            for th in ths:
                th.join(timeout=20)
            leg.eval()
            leg.count("slow_storage_scrapes", scr["n"])
            leg.count("slow_storage_scrapes_that_waited_over_100ms", scr["waited"])
            leg.count("slow_storage_burst_replies", len(got or []))
            leg.cls("slow-storage-scrapes|%s|%s" % ("some-waited" if scr["waited"] else "none-waited", "consistent" if not scr["bad"] else "stale"))
            if scr["bad"]:
                leg.violation("C20/gauges-stale-while-the-store-is-busy", "%d of %d scrapes outside [exchanges answered when it began, exchanges sent] with every fdatasync taking 150 ms; first: answered before %d, active+expired %d, sent %d, scrape took %d ms" % (
                    (len(scr["bad"]), scr["n"]) + scr["bad"][0]), {"engine": "c20-e2e", "phase": "slow-storage", "bad": scr["bad"][:10]})
            elif done == 0 or scr["n"] == 0:
                leg.count("slow_storage_phase_observed_nothing", 1)
            if done == 2 and len(seen) == burst:
                # every exchange of the phase was answered: nothing is in flight, the store can be compared exactly
                time.sleep(0.3)
                check_gauges("slow-storage-after")
                check_listing("slow-storage-after")
            else:
                leg.count("slow_storage_exchanges_unanswered_no_exact_comparison", 1)
        for pr in sb.procs:
            for line in pr.panics():
                leg.violation("C20/handler-panic/%s" % base.panic_signature(line), line.strip(), {"engine": "c20-e2e"})
    except base.Inconclusive as e:
        leg.inconclusive(str(e))
    except sqlite3.Error as e:
        leg.inconclusive("cannot read the lease store: %s" % e)
    finally:
        if sb:
            sb.close()
    leg.write(args)


if __name__ == "__main__":
    main()
