#!/usr/bin/python3
"""C15 end-to-end leg: DNS route choice = longest matching suffix, whatever the order of routes
and suffixes and whatever the case of names; forge-nxdomain never reaches an upstream; forwarding
only with RD; no route -> SERVFAIL."""
import os
import random
import struct
import sys
import time

sys.path.insert(0, os.path.dirname(os.path.abspath(__file__)))
import base  # noqa: E402
import dnslib  # noqa: E402

SUFFIX_POOL = ["", "test", "example.test", "a.example.test", "b.example.test", "deep.a.example.test", "xexample.test",
               "corp", "lan.corp", "other", "example.other", "invalid", "tracker.block", "work.corp", "k"]
NX, SERVFAIL, REFUSED = 3, 2, 5


def ascii_lower(s):
    """ASCII case folding only (RFC 4343): 'K' (U+212A KELVIN SIGN) is not 'k'."""
    return "".join(chr(ord(c) + 32) if "A" <= c <= "Z" else c for c in s)


def labels(name):
    return [l for l in ascii_lower(name).split(".") if l]


def model(routes, qname):
    """routes: list of {"suffixes": [...], "type": "forward"|"forge", "upstream": k}.  Returns the route or None."""
    ql = labels(qname)
    best, best_len = None, -1
    for r in routes:
        for s in r["suffixes"]:
            sl = labels(s)
            if len(sl) <= len(ql) and (len(sl) == 0 or ql[-len(sl):] == sl):
                if len(sl) > best_len:
                    best, best_len = r, len(sl)
    return best


def randcase(rnd, s):
    return "".join((c.upper() if rnd.random() < 0.5 else c.lower()) if c.isascii() else c for c in s)


def gen_table(rnd):
    pool = SUFFIX_POOL[:]
    rnd.shuffle(pool)
    nroutes = rnd.randint(1, 6)
    routes = []
    up = 0
    for _ in range(nroutes):
        k = rnd.randint(0, 4)
        sfx = [pool.pop() for _ in range(min(k, len(pool)))]
        if rnd.random() < 0.7:
            up += 1
            routes.append({"suffixes": sfx, "type": "forward", "upstream": up})
        else:
            routes.append({"suffixes": sfx, "type": "forge", "upstream": None})
    return routes


def conf_for(rnd, routes, permute):
    rs = [dict(r, suffixes=r["suffixes"][:]) for r in routes]
    if permute:
        rnd.shuffle(rs)
        for r in rs:
            rnd.shuffle(r["suffixes"])
    y = "---\ndns-listeners: ['127.0.0.53:53']\nacls:\n  - match-subnets: ['127.0.0.0/8']\n    apply-access: ['dns-recursion']\ndns-routes:\n"
    for r in rs:
        sf = ", ".join("'%s'" % (randcase(rnd, s) if permute else s) for s in r["suffixes"])
        y += "  - domain-suffixes: [%s]\n" % sf
        if r["type"] == "forward":
            y += "    type: forward\n    dns-servers: ['127.0.2.%d']\n" % r["upstream"]
        else:
            y += "    type: forge-nxdomain\n"
    return y


def gen_names(rnd, routes, n):
    names = []
    sfx = [s for r in routes for s in r["suffixes"]] + SUFFIX_POOL
    for i in range(n):
        roll = rnd.random()
        base_s = rnd.choice(sfx)
        if roll < 0.15:
            nm = base_s  # the suffix itself (may be the root)
        elif roll < 0.3:
            nm = "x" + base_s if base_s else "x"  # near miss: label with a prefix glued on
            if "k" in base_s and rnd.random() < 0.7:
                # near miss: a character that is 'k' only under Unicode case folding, in place of a 'k' of the suffix
                pre = rnd.choice(["", "www.", "a.b."])
                nm = pre + base_s.replace("k", "\u212a", 1)
        elif roll < 0.38 and base_s:
            # near miss: a dot that is an octet INSIDE a label ("\x1f" here, see dnslib.enc_name), so that the name's text ends
            # with the suffix although its labels do not: the whole name as one label, or the suffix's first label glued to the
            # label before it
            sl = base_s.split(".")
            if rnd.random() < 0.5:
                nm = rnd.choice(["a", "www", "x"]) + "\x1f" + "\x1f".join(sl)
            else:
                nm = rnd.choice(["", "deep."]) + rnd.choice(["a", "www"]) + "\x1f" + ".".join(sl)
        elif roll < 0.4:
            nm = ".".join(rnd.choice(["a", "b", "www", "deep", "example", "test", "corp"]) for _ in range(rnd.randint(1, 6)))
        else:
            pre = ".".join(rnd.choice(["www", "a", "b", "mail", "deep"]) for _ in range(rnd.randint(1, 3)))
            nm = pre + ("." + base_s if base_s else "")
        names.append(nm)
    return names


def main():
    base.enter_namespaces()
    args = base.parse_args()
    thorough = args["tier"] == "thorough"
    rnd = random.Random(args["seed"] * 7919 + 15)
    leg = base.Leg(
        "c15-routes-e2e", "C15",
        "route tables (1..6 routes, 0..4 suffixes each from nested/sibling/empty/near-miss suffixes, no suffix in two routes), each "
        "served by its own erbium-dns instance in its written form and in permuted forms (route order, suffix order, suffix case), one "
        "scripted upstream per forward route on its own loopback address; query names of 0..7 labels in random case incl. the suffixes "
        "themselves and near misses (a prefix glued on, U+212A for k, a '.' octet inside a label so that only the text ends with the suffix); outcome compared with the longest-suffix model: forwarded to exactly that route's upstream (and only "
        "with RD), NXDOMAIN without any upstream transmission under forge-nxdomain, SERVFAIL without a route; identical across "
        "permutations; plus one table of three nested forward routes whose upstreams give cacheable answers and name errors (SOA, TTL 300) asked in an order that puts ancestors first; distinct = (expected action, suffix depth, name case, permuted, outcome)", floor=100)
    d = base.scratch_dir("c15")
    ups = []
    try:
        base.setup_loopback()

        def script(qn, proto, nth, q):
            if qn.endswith("nest.test") and (any(l.startswith("nx") for l in qn.split(".")) or qn == "nest.test"):
                # a cacheable name error (SOA with a positive TTL), as a real upstream would give for a name it does not have
                soa = dnslib.enc_name("ns.nest.test") + dnslib.enc_name("root.nest.test") + struct.pack(">IIIII", 1, 3600, 600, 86400, 300)
                return [("reply", dnslib.build_reply(q, rcode=3, authority=[("nest.test", 6, 300, soa)]), 0)]
            if qn.endswith("nest.test"):
                return [("reply", dnslib.build_reply(q, answers=[(qn, 1, 300, bytes([10, 0, 0, 2]))]), 0)]
            return [("reply", dnslib.build_reply(q, answers=[(qn, 1, 0, bytes([10, 0, 0, 1]))]), 0)]

        for k in range(1, 7):
            ups.append(dnslib.Upstream("127.0.2.%d" % k, script, name="u%d" % k))
        ntables = 150 if thorough else 6
        nperm = 3 if thorough else 2
        nnames = 60 if thorough else 40
        counter = [0]
        for t in range(ntables):
            routes = gen_table(rnd)
            names = gen_names(rnd, routes, nnames)
            outcomes_by_perm = []
            for perm in range(nperm):
                conf = conf_for(rnd, routes, perm > 0)
                cp = os.path.join(d, "t%d-%d.conf" % (t, perm))
                open(cp, "w").write(conf)
                p = base.Proc("erbium-dns", [os.path.join(base.BIN, "erbium-dns"), cp], d, rust_log="error")
                try:
                    if not dnslib.wait_port("127.0.0.53", 53):
                        raise base.Inconclusive("erbium-dns did not start for table %d: %s" % (t, p.text()[-300:]))
                    if leg.samples == [] or (perm == 1 and len(leg.samples) < 3):
                        leg.sample({"table": routes, "config": conf})
                    outcomes = []
                    for nm in names:
                        counter[0] += 1
                        # unique first label unless the name is meant to be exactly a suffix / near miss
                        rd = rnd.random() > 0.12
                        qname = randcase(rnd, nm) if rnd.random() < 0.6 else nm
                        marks = [len(u.events) for u in ups]
                        # the route depends on the NAME only: every query type goes the same way (DS, NS, SOA, ANY-like and unknown
                        # types included)
                        qtype = rnd.choice([1, 1, 1, 28, 2, 6, 15, 16, 33, 43, 48, 65, 257, 65280])
                        q = dnslib.build_query(counter[0] & 0xFFFF, qname, qtype=qtype, edns=1232, rd=rd)
                        # TCP: rcodes matter here and REFUSED over UDP is rate limited by design
                        r, err = dnslib.tcp_query(("127.0.0.53", 53), q, timeout=8.0)
                        time.sleep(0.002)
                        saw = []
                        for i, u in enumerate(ups):
                            new = [e for e in u.events[marks[i]:] if e["kind"] == "query" and ascii_lower(e.get("qname") or "") == ascii_lower(qname.replace("\x1f", ".").encode().decode("latin1"))]
                            if new:
                                saw.append(i + 1)
                        want = model(routes, qname)
                        leg.eval()
                        depth = -1 if want is None else max(len(labels(s)) for s in want["suffixes"] if len(labels(s)) <= len(labels(qname)) and (not labels(s) or labels(qname)[-len(labels(s)):] == labels(s)))
                        mixed = qname != ascii_lower(qname)
                        replay = {"engine": "c15-e2e", "config": conf, "qname": qname, "qtype": qtype, "rd": rd, "table": routes}
                        if r is None:
                            leg.violation("C15/no-response", "%s: %s" % (qname, err), replay)
                            outcomes.append(("none",))
                            continue
                        pr = dnslib.parse(r)
                        rc = pr.rcode & 0xF
                        outcomes.append((rc, tuple(saw)))
                        if want is None:
                            exp = "servfail"
                            ok = rc == SERVFAIL and not saw
                        elif want["type"] == "forge":
                            exp = "nxdomain"
                            ok = rc == NX and not saw
                        elif not rd:
                            exp = "refused-no-rd"
                            ok = rc == REFUSED and not saw
                        else:
                            exp = "forward"
                            ok = rc == 0 and saw == [want["upstream"]]
                        leg.cls("%s|depth%d|mixed%s|perm%s|%s" % (exp, depth, mixed, perm > 0, "ok" if ok else "bad"))
                        if not ok:
                            case_only = False
                            # would the outcome be right if the name were lower case and the table as written?
                            if mixed or perm > 0:
                                case_only = True
                            sig = "C15/%s-expected/%s" % (exp, "case-or-order-sensitive" if case_only else "wrong-route")
                            leg.violation(sig, "query %s type %d (RD=%s): expected %s via %s, got rcode %d, upstreams that saw it: %s" % (
                                qname, qtype, rd, exp, want and want.get("upstream"), rc, saw), replay)
                    outcomes_by_perm.append(outcomes)
                    for line in p.panics():
                        leg.violation("C15/handler-panic/%s" % base.panic_signature(line), line.strip(), {"engine": "c15-e2e", "config": conf})
                finally:
                    p.stop()
            leg.count("tables", 1)
            leg.count("instances", nperm)
        # ---- nested forward routes whose upstreams give cacheable answers, incl. name errors for ancestors: what one route's
        # server said about `nest.test` / `nx.corp.nest.test` must not answer names that belong to another route / were never asked
        nest_conf = ("---\ndns-listeners: ['127.0.0.53:53']\nacls:\n  - match-subnets: ['127.0.0.0/8']\n    apply-access: ['dns-recursion']\ndns-routes:\n"
                     "  - domain-suffixes: ['']\n    type: forward\n    dns-servers: ['127.0.2.1']\n"
                     "  - domain-suffixes: ['corp.nest.test']\n    type: forward\n    dns-servers: ['127.0.2.2']\n"
                     "  - domain-suffixes: ['lab.corp.nest.test']\n    type: forward\n    dns-servers: ['127.0.2.3']\n")
        cp = os.path.join(d, "nest.conf")
        open(cp, "w").write(nest_conf)
        p = base.Proc("erbium-dns", [os.path.join(base.BIN, "erbium-dns"), cp], d, rust_log="error")
        try:
            if not dnslib.wait_port("127.0.0.53", 53):
                raise base.Inconclusive("erbium-dns did not start for the nested table: %s" % p.text()[-300:])
            seq = [("nest.test", 1, NX), ("host.corp.nest.test", 2, 0), ("nx.corp.nest.test", 2, NX), ("a.nx.corp.nest.test", 2, NX), ("www.nest.test", 1, 0),
                   ("host.lab.corp.nest.test", 3, 0), ("nxa.lab.corp.nest.test", 3, NX), ("b.nxa.lab.corp.nest.test", 3, NX), ("other.corp.nest.test", 2, 0),
                   ("Host.Corp.Nest.Test", None, 0)]
            for (qname, upstream, want_rc) in seq:
                counter[0] += 1
                marks = [len(u.events) for u in ups]
                r, err = dnslib.tcp_query(("127.0.0.53", 53), dnslib.build_query(counter[0] & 0xFFFF, qname, edns=1232), timeout=8.0)
                time.sleep(0.002)
                saw = [i + 1 for i, u in enumerate(ups) if [e for e in u.events[marks[i]:] if e["kind"] == "query" and (e.get("qname") or "").lower() == qname.lower()]]
                leg.eval()
                rc = (dnslib.parse(r).rcode & 0xF) if r is not None else None
                # what matters: the right response code, and no OTHER route's server ever sees the name.  Whether the route's own
                # server sees it this time is the cache's business (a repeat in another spelling, or a server that remembers a name
                # error of the same route, may answer without asking again)
                ok = rc == want_rc and saw in ([], [upstream if upstream is not None else 2])
                leg.cls("nested-cacheable|%s|%s" % ("nx" if want_rc == NX else "noerror", "ok" if ok else "bad"))
                if not ok:
                    leg.violation("C15/nested-routes-with-cacheable-answers/%s" % ("wrong-rcode" if rc != want_rc else "wrong-upstream"),
                                  "query %s: expected rcode %s from upstream %s, got rcode %s, upstreams that saw it: %s (earlier queries of this sequence: %s)" % (
                                      qname, want_rc, upstream, rc, saw, [x[0] for x in seq[:seq.index((qname, upstream, want_rc))]]),
                                  {"engine": "c15-e2e", "config": nest_conf, "qname": qname})
            for line in p.panics():
                leg.violation("C15/handler-panic/%s" % base.panic_signature(line), line.strip(), {"engine": "c15-e2e", "config": nest_conf})
        finally:
            p.stop()
        leg.count("upstream_events", sum(len(u.events) for u in ups))
    except base.Inconclusive as e:
        leg.inconclusive(str(e))
    finally:
        for u in ups:
            u.stop()
        base.cleanup_dir(d)
    leg.write(args)


if __name__ == "__main__":
    main()
