"""Minimal DNS wire helpers (enough for ids, rcodes, names, A/TXT answers, TTLs, OPT) and the
scripted upstream server of the end-to-end rig.  Byte-exact judgements are left to `vh judge-*`,
which uses the reference codec; this module only needs to route and to read simple fields."""
import os
import random
import select
import socket
import struct
import threading
import time


def enc_name(name):
    out = b""
    if isinstance(name, str):
        # "\x1f" inside a label stands for a literal '.' octet that is part of the label (not a separator)
        labels = [l.encode().replace(b"\x1f", b".") for l in name.split(".") if l]
    else:
        labels = name
    for l in labels:
        out += bytes([len(l)]) + l
    return out + b"\0"


def dec_name(b, o, depth=0):
    labels = []
    jumped = None
    hops = 0
    while True:
        if o >= len(b):
            raise ValueError("name runs past end")
        l = b[o]
        if l & 0xC0 == 0xC0:
            if o + 1 >= len(b):
                raise ValueError("pointer truncated")
            if jumped is None:
                jumped = o + 2
            o = ((l & 0x3F) << 8) | b[o + 1]
            hops += 1
            if hops > 64:
                raise ValueError("pointer loop")
            continue
        if l & 0xC0:
            raise ValueError("label type")
        o += 1
        if l == 0:
            break
        labels.append(b[o:o + l])
        o += l
    return labels, (jumped if jumped is not None else o)


def name_str(labels):
    return ".".join(l.decode("latin1") for l in labels)


def build_query(qid, name, qtype=1, qclass=1, rd=True, edns=None, cd=False, options=b"", do=False):
    """edns: None = no OPT; int = advertised UDP size."""
    flags = (0x0100 if rd else 0) | (0x0010 if cd else 0)
    ar = 1 if edns is not None else 0
    m = struct.pack(">HHHHHH", qid, flags, 1, 0, 0, ar) + enc_name(name) + struct.pack(">HH", qtype, qclass)
    if edns is not None:
        ttl = 0x8000 if do else 0
        m += b"\0" + struct.pack(">HHIH", 41, edns, ttl, len(options)) + options
    return m


def build_reply(query, answers=(), rcode=0, tc=False, authority=(), additional=(), aa=False):
    """answers: list of (name, type, ttl, rdata) -- names uncompressed."""
    qid, qflags, qd = struct.unpack(">HHH", query[:6])
    # copy the question
    labels, o = dec_name(query, 12)
    question = query[12:o + 4]
    flags = 0x8000 | (qflags & 0x0110) | 0x0080 | (0x0200 if tc else 0) | (0x0400 if aa else 0) | (rcode & 0xF)
    m = struct.pack(">HHHHHH", qid, flags, 1, len(answers), len(authority), len(additional)) + question
    for sec in (answers, authority, additional):
        for (n, t, ttl, rd) in sec:
            m += enc_name(n) + struct.pack(">HHIH", t, 1, ttl, len(rd)) + rd
    return m


class Parsed:
    pass


def parse(b):
    """Lenient parse: header, question, records (type, ttl, raw rdata), OPT."""
    p = Parsed()
    if len(b) < 12:
        raise ValueError("short")
    p.id, p.flags, qd, an, ns, ar = struct.unpack(">HHHHHH", b[:12])
    p.qr = bool(p.flags & 0x8000)
    p.tc = bool(p.flags & 0x0200)
    p.rcode = p.flags & 0xF
    o = 12
    p.qname = None
    p.qname_labels = None
    p.qtype = None
    for _ in range(qd):
        labels, o = dec_name(b, o)
        p.qname_labels = labels
        p.qname = name_str(labels)
        p.qtype, p.qclass = struct.unpack(">HH", b[o:o + 4])
        o += 4
    p.sections = [[], [], []]
    p.opt = None
    for si, cnt in enumerate((an, ns, ar)):
        for _ in range(cnt):
            labels, o = dec_name(b, o)
            t, c, ttl, rdl = struct.unpack(">HHIH", b[o:o + 10])
            o += 10
            rd = b[o:o + rdl]
            if len(rd) != rdl:
                raise ValueError("rdata truncated")
            o += rdl
            if t == 41:
                p.opt = {"size": c, "ttl": ttl, "rdata": rd}
                p.rcode |= (ttl >> 24) << 4
            else:
                p.sections[si].append((name_str(labels), t, ttl, rd))
    p.answers = p.sections[0]
    p.end = o
    return p


def opt_options(rdata):
    out = []
    o = 0
    while o + 4 <= len(rdata):
        code, l = struct.unpack(">HH", rdata[o:o + 4])
        out.append((code, rdata[o + 4:o + 4 + l]))
        o += 4 + l
    return out


class Upstream:
    """Scripted upstream DNS server (UDP + TCP) on one address, port 53.

    script(qname_lower, proto, nth_transmission, query_bytes) -> list of actions, each
      ("reply", bytes, delay_s) | ("drop",) | ("split", bytes, delay_s, cut, pause_s) ; bytes get the query's id patched in unless the action
      is ("raw", bytes, delay_s).
    Every received query and every sent reply is appended to self.events (monotonic clock).
    """

    def __init__(self, addr, script, family=socket.AF_INET, name="up"):
        self.addr = addr
        SCRIPTED_PEERS.add(addr)
        SCRIPTED_PEERS.add("::ffff:" + addr)
        self.script = script
        self.name = name
        self.events = []
        self.lock = threading.Lock()
        self.seen = {}
        self.stop_flag = False
        self.udp = socket.socket(family, socket.SOCK_DGRAM)
        self.udp.setsockopt(socket.SOL_SOCKET, socket.SO_REUSEADDR, 1)
        self.udp.setsockopt(socket.SOL_SOCKET, socket.SO_RCVBUF, 4 << 20)
        self.udp.bind((addr, 53))
        self.tcp = socket.socket(family, socket.SOCK_STREAM)
        self.tcp.setsockopt(socket.SOL_SOCKET, socket.SO_REUSEADDR, 1)
        self.tcp.bind((addr, 53))
        self.tcp.listen(256)
        self.timers = []
        self.threads = [threading.Thread(target=self._udp_loop, daemon=True), threading.Thread(target=self._tcp_loop, daemon=True)]
        for t in self.threads:
            t.start()

    def log(self, kind, **kw):
        kw["t"] = time.monotonic()
        kw["kind"] = kind
        kw["upstream"] = self.name
        with self.lock:
            self.events.append(kw)

    def _nth(self, key):
        with self.lock:
            n = self.seen.get(key, 0)
            self.seen[key] = n + 1
            return n

    def _actions(self, q, proto):
        try:
            p = parse(q)
        except (ValueError, struct.error):
            self.log("garbage", proto=proto, raw=q.hex())
            return None, []
        qn = (p.qname or "").lower()
        nth = self._nth((qn, proto))
        self.log("query", proto=proto, qname=p.qname, qid=p.id, nth=nth, rd=bool(p.flags & 0x100), raw=q.hex())
        return p, self.script(qn, proto, nth, q) or []

    def _udp_loop(self):
        while not self.stop_flag:
            r, _, _ = select.select([self.udp], [], [], 0.2)
            if not r:
                continue
            try:
                q, src = self.udp.recvfrom(65535)
            except OSError:
                continue
            p, actions = self._actions(q, "udp")
            for a in actions:
                self._do(a, q, p, lambda data, src=src: self.udp.sendto(data, src), "udp")

    def _do(self, a, q, p, send, proto):
        if a[0] == "drop":
            self.log("drop", proto=proto, qname=p.qname if p else None)
            return
        if a[0] == "close":
            # TCP only: hang up without answering (a name server that does not serve TCP, a middlebox resetting the connection)
            self.log("close", proto=proto, qname=p.qname if p else None)
            closer = getattr(send, "close_connection", None)
            if closer:
                closer()
            return
        if a[0] == "when":
            # ("when", predicate, bytes, max_wait): reply once predicate() holds (or after max_wait)
            pred, data, max_wait = a[1], q[:2] + a[2][2:], a[3]

            def waiter():
                end = time.monotonic() + max_wait
                while time.monotonic() < end and not pred() and not self.stop_flag:
                    time.sleep(0.01)
                try:
                    send(data)
                    self.log("reply", proto=proto, qname=p.qname if p else None, n=len(data), held=True)
                except OSError as e:
                    self.log("send-error", proto=proto, err=str(e))

            threading.Thread(target=waiter, daemon=True).start()
            return
        data = a[1]
        if a[0] in ("reply", "split"):
            data = q[:2] + data[2:]
        delay = a[2] if len(a) > 2 else 0

        def fire():
            try:
                if a[0] == "split" and proto == "tcp":
                    # ("split", bytes, delay, cut, pause): the framed reply leaves in two writes with a pause in between,
                    # as a congested or segmenting path would deliver it
                    send(data, a[3], a[4])
                else:
                    send(data)
                self.log("reply", proto=proto, qname=p.qname if p else None, n=len(data))
            except OSError as e:
                self.log("send-error", proto=proto, err=str(e))

        if delay > 0:
            t = threading.Timer(delay, fire)
            t.daemon = True
            t.start()
            self.timers.append(t)
        else:
            fire()

    def _tcp_loop(self):
        while not self.stop_flag:
            r, _, _ = select.select([self.tcp], [], [], 0.2)
            if not r:
                continue
            try:
                c, _ = self.tcp.accept()
            except OSError:
                continue
            threading.Thread(target=self._tcp_conn, args=(c,), daemon=True).start()

    def _tcp_conn(self, c):
        c.settimeout(180)
        wlock = threading.Lock()
        self.log("tcp-accept")
        try:
            while not self.stop_flag:
                hdr = self._readn(c, 2)
                if hdr is None:
                    return
                (l,) = struct.unpack(">H", hdr)
                q = self._readn(c, l)
                if q is None:
                    return
                p, actions = self._actions(q, "tcp")

                def send(data, cut=None, pause=0.0, c=c):
                    framed = struct.pack(">H", len(data)) + data
                    with wlock:
                        if cut is None:
                            c.sendall(framed)
                        else:
                            c.sendall(framed[:cut])
                            time.sleep(pause)
                            c.sendall(framed[cut:])

                def close_connection(c=c):
                    try:
                        c.shutdown(socket.SHUT_RDWR)
                    except OSError:
                        pass

                send.close_connection = close_connection
                for a in actions:
                    self._do(a, q, p, send, "tcp")
        except OSError:
            pass
        finally:
            # keep the socket open a little so delayed replies can still be written
            time.sleep(0.5)
            try:
                c.close()
            except OSError:
                pass

    @staticmethod
    def _readn(c, n):
        buf = b""
        while len(buf) < n:
            try:
                d = c.recv(n - len(buf))
            except OSError:
                return None
            if not d:
                return None
            buf += d
        return buf

    def stop(self):
        self.stop_flag = True
        for s in (self.udp, self.tcp):
            try:
                s.close()
            except OSError:
                pass

    def queries_for(self, qname_lower, proto=None):
        with self.lock:
            return [e for e in self.events if e["kind"] == "query" and (e.get("qname") or "").lower() == qname_lower and (proto is None or e["proto"] == proto)]


STRAY_IGNORED = [0]
# addresses of this process's scripted upstreams (filled in by Upstream.__init__)
SCRIPTED_PEERS = set()


def udp_query(server, data, src=None, timeout=3.0, family=socket.AF_INET, bufsize=65535, collect_for=0.0, ignore_from=()):
    """Send one datagram, return list of (bytes, from_addr) received within timeout (all of them if
    collect_for > 0, else just the first).  ignore_from: IP addresses of the rig's own scripted peers (those of this process's
    Upstream objects are known anyway); a datagram from port 53 of one of them is not a response of the server under test (it was addressed to a port the server's closed
    upstream socket used to have and this socket has now) and is skipped without ending the wait."""
    s = socket.socket(family, socket.SOCK_DGRAM)
    try:
        if src:
            s.bind(src)
        s.sendto(data, server)
        out = []
        end = time.monotonic() + timeout
        while True:
            left = end - time.monotonic()
            if left <= 0:
                break
            r, _, _ = select.select([s], [], [], left)
            if not r:
                break
            d, frm = s.recvfrom(bufsize)
            if frm[1] == 53 and frm[0] != server[0] and (frm[0] in ignore_from or frm[0] in SCRIPTED_PEERS):
                STRAY_IGNORED[0] += 1
                continue
            out.append((d, frm))
            if collect_for <= 0:
                break
            end = min(end, time.monotonic() + collect_for)
        return out
    finally:
        s.close()


def tcp_query(server, data, src=None, timeout=5.0, family=socket.AF_INET, split=None, rcvbuf=None, slow_read=False):
    """One query on one TCP connection.  split: list of chunk sizes for the framed message.
    Returns (response bytes | None, error string | None)."""
    s = socket.socket(family, socket.SOCK_STREAM)
    try:
        if rcvbuf:
            s.setsockopt(socket.SOL_SOCKET, socket.SO_RCVBUF, rcvbuf)
        s.setsockopt(socket.IPPROTO_TCP, socket.TCP_NODELAY, 1)
        if src:
            s.bind(src)
        s.settimeout(timeout)
        s.connect(server)
        framed = struct.pack(">H", len(data)) + data
        if split:
            o = 0
            for n in split:
                if o >= len(framed):
                    break
                s.sendall(framed[o:o + n])
                o += n
                time.sleep(0.05)
            if o < len(framed):
                s.sendall(framed[o:])
        else:
            s.sendall(framed)
        buf = b""
        want = None
        while True:
            if slow_read:
                time.sleep(0.01)
            try:
                d = s.recv(2048 if slow_read else 65536)
            except socket.timeout:
                return None, "timeout after %d octets" % len(buf)
            if not d:
                break
            buf += d
            if want is None and len(buf) >= 2:
                want = struct.unpack(">H", buf[:2])[0]
            if want is not None and len(buf) >= 2 + want:
                break
        if want is None:
            return None, "connection closed after %d octets" % len(buf)
        if len(buf) < 2 + want:
            return None, "short response: %d of %d octets" % (len(buf) - 2, want)
        extra = buf[2 + want:]
        return buf[2:2 + want], ("%d extra octets" % len(extra)) if extra else None
    except OSError as e:
        return None, "socket error: %s" % e
    finally:
        s.close()


def wait_port(addr, port, family=socket.AF_INET, timeout=15.0, tcp=True):
    t0 = time.time()
    while time.time() - t0 < timeout:
        s = socket.socket(family, socket.SOCK_STREAM)
        s.settimeout(0.3)
        try:
            s.connect((addr, port))
            s.close()
            return True
        except OSError:
            time.sleep(0.1)
        finally:
            s.close()
    return False
